/* Self-test miniatures for the C07 rules (parsed only). */
#include "relic.h"

/* ------------------------------------------------------------------ conforming point decoder */
void ok_full__ep_read_bin(ep_t a, const uint8_t *bin, size_t len) {
	if (len == 1) {
		if (bin[0] == 0) {
			ep_set_infty(a);
			return;
		} else {
			RLC_THROW(ERR_NO_BUFFER);
			return;
		}
	}
	if (len != (RLC_FP_BYTES + 1) && len != (2 * RLC_FP_BYTES + 1)) {
		RLC_THROW(ERR_NO_BUFFER);
		return;
	}
	a->coord = BASIC;
	fp_set_dig(a->z, 1);
	fp_read_bin(a->x, bin + 1, RLC_FP_BYTES);
	if (len == RLC_FP_BYTES + 1) {
		switch (bin[0]) {
			case 2:
				fp_zero(a->y);
				break;
			case 3:
				fp_zero(a->y);
				fp_set_bit(a->y, 0, 1);
				break;
			default:
				RLC_THROW(ERR_NO_VALID);
				break;
		}
		ep_upk(a, a);
	}
	if (len == 2 * RLC_FP_BYTES + 1) {
		if (bin[0] == 4) {
			fp_read_bin(a->y, bin + RLC_FP_BYTES + 1, RLC_FP_BYTES);
		} else {
			RLC_THROW(ERR_NO_VALID);
			return;
		}
	}
	if (!ep_on_curve(a)) {
		RLC_THROW(ERR_NO_VALID);
		return;
	}
}

/* on-curve check dropped on the uncompressed path */
void bad_dec_valid__ep_read_bin(ep_t a, const uint8_t *bin, size_t len) {
	if (len != (RLC_FP_BYTES + 1) && len != (2 * RLC_FP_BYTES + 1)) {
		RLC_THROW(ERR_NO_BUFFER);
		return;
	}
	a->coord = BASIC;
	fp_set_dig(a->z, 1);
	fp_read_bin(a->x, bin + 1, RLC_FP_BYTES);
	if (len == RLC_FP_BYTES + 1) {
		if (bin[0] == 2) {
			fp_zero(a->y);
		} else {
			RLC_THROW(ERR_NO_VALID);
			return;
		}
		ep_upk(a, a);
		if (!ep_on_curve(a)) {
			RLC_THROW(ERR_NO_VALID);
		}
		return;
	}
	if (bin[0] == 4) {
		fp_read_bin(a->y, bin + RLC_FP_BYTES + 1, RLC_FP_BYTES);
	} else {
		RLC_THROW(ERR_NO_VALID);
	}
}

/* point modified after the check */
void bad_dec_valid__late_write_ep_read_bin(ep_t a, const uint8_t *bin, size_t len) {
	if (len != (2 * RLC_FP_BYTES + 1)) {
		RLC_THROW(ERR_NO_BUFFER);
		return;
	}
	if (bin[0] != 4) {
		RLC_THROW(ERR_NO_VALID);
		return;
	}
	a->coord = BASIC;
	fp_set_dig(a->z, 1);
	fp_read_bin(a->x, bin + 1, RLC_FP_BYTES);
	if (!ep_on_curve(a)) {
		RLC_THROW(ERR_NO_VALID);
		return;
	}
	fp_read_bin(a->y, bin + RLC_FP_BYTES + 1, RLC_FP_BYTES);
}

/* else-branch that throws is missing: unknown tags are accepted */
void bad_dec_tag__ep_read_bin(ep_t a, const uint8_t *bin, size_t len) {
	if (len != (2 * RLC_FP_BYTES + 1)) {
		RLC_THROW(ERR_NO_BUFFER);
		return;
	}
	a->coord = BASIC;
	fp_set_dig(a->z, 1);
	fp_read_bin(a->x, bin + 1, RLC_FP_BYTES);
	if (bin[0] == 4) {
		fp_read_bin(a->y, bin + RLC_FP_BYTES + 1, RLC_FP_BYTES);
	}
	if (!ep_on_curve(a)) {
		RLC_THROW(ERR_NO_VALID);
		return;
	}
}

/* tag 5 accepted although ep_write_bin never writes it */
void bad_tag_agree__ep_read_bin(ep_t a, const uint8_t *bin, size_t len) {
	if (len != (2 * RLC_FP_BYTES + 1)) {
		RLC_THROW(ERR_NO_BUFFER);
		return;
	}
	a->coord = BASIC;
	fp_set_dig(a->z, 1);
	fp_read_bin(a->x, bin + 1, RLC_FP_BYTES);
	switch (bin[0]) {
		case 4:
		case 5:
			fp_read_bin(a->y, bin + RLC_FP_BYTES + 1, RLC_FP_BYTES);
			break;
		default:
			RLC_THROW(ERR_NO_VALID);
			return;
	}
	if (!ep_on_curve(a)) {
		RLC_THROW(ERR_NO_VALID);
		return;
	}
}

/* length test weakened to an inequality: longer inputs accepted */
void bad_dec_len__fp3_read_bin(fp3_t a, const uint8_t *bin, size_t len) {
	if (len < 3 * RLC_FP_BYTES) {
		RLC_THROW(ERR_NO_BUFFER);
		return;
	}
	fp_read_bin(a[0], bin, RLC_FP_BYTES);
	fp_read_bin(a[1], bin + RLC_FP_BYTES, RLC_FP_BYTES);
	fp_read_bin(a[2], bin + 2 * RLC_FP_BYTES, RLC_FP_BYTES);
}

/* accepts 4 coordinates' worth of bytes, reads 3 */
void bad_dec_cover__fp3_read_bin(fp3_t a, const uint8_t *bin, size_t len) {
	if (len != 4 * RLC_FP_BYTES) {
		RLC_THROW(ERR_NO_BUFFER);
		return;
	}
	fp_read_bin(a[0], bin, RLC_FP_BYTES);
	fp_read_bin(a[1], bin + RLC_FP_BYTES, RLC_FP_BYTES);
	fp_read_bin(a[2], bin + 2 * RLC_FP_BYTES, RLC_FP_BYTES);
}

void ok_plain__fp3_read_bin(fp3_t a, const uint8_t *bin, size_t len) {
	if (len != 3 * RLC_FP_BYTES) {
		RLC_THROW(ERR_NO_BUFFER);
		return;
	}
	fp_read_bin(a[0], bin, RLC_FP_BYTES);
	fp_read_bin(a[1], bin + RLC_FP_BYTES, RLC_FP_BYTES);
	fp_read_bin(a[2], bin + 2 * RLC_FP_BYTES, RLC_FP_BYTES);
}

/* ------------------------------------------------------------------ encoders */
void ok_enc__ep_write_bin(uint8_t *bin, size_t len, const ep_t a, int pack) {
	memset(bin, 0, len);
	if (ep_is_infty(a)) {
		if (len < 1) {
			RLC_THROW(ERR_NO_BUFFER);
			return;
		} else {
			return;
		}
	}
	RLC_TRY {
		if (pack) {
			if (len < RLC_FP_BYTES + 1) {
				RLC_THROW(ERR_NO_BUFFER);
			} else {
				bin[0] = 2 | fp_get_bit(a->y, 0);
				fp_write_bin(bin + 1, RLC_FP_BYTES, a->x);
			}
		} else {
			if (len < 2 * RLC_FP_BYTES + 1) {
				RLC_THROW(ERR_NO_BUFFER);
			} else {
				bin[0] = 4;
				fp_write_bin(bin + 1, RLC_FP_BYTES, a->x);
				fp_write_bin(bin + RLC_FP_BYTES + 1, RLC_FP_BYTES, a->y);
			}
		}
	} RLC_CATCH_ANY {
		RLC_THROW(ERR_CAUGHT);
	}
}

/* off by one: a buffer of 2*B bytes is written with 2*B+1 */
void bad_enc_len__short_ep_write_bin(uint8_t *bin, size_t len, const ep_t a, int pack) {
	if (len < 2 * RLC_FP_BYTES) {
		RLC_THROW(ERR_NO_BUFFER);
		return;
	}
	bin[0] = 4;
	fp_write_bin(bin + 1, RLC_FP_BYTES, a->x);
	fp_write_bin(bin + RLC_FP_BYTES + 1, RLC_FP_BYTES, a->y);
}

/* tag byte stored before the test */
void bad_enc_len__early_ep_write_bin(uint8_t *bin, size_t len, const ep_t a, int pack) {
	bin[0] = 4;
	if (len < 2 * RLC_FP_BYTES + 1) {
		RLC_THROW(ERR_NO_BUFFER);
		return;
	}
	fp_write_bin(bin + 1, RLC_FP_BYTES, a->x);
	fp_write_bin(bin + RLC_FP_BYTES + 1, RLC_FP_BYTES, a->y);
}

/* the refusal is outside any TRY and has no return: it falls through into the stores */
void bad_enc_len__fallthrough_fp3_write_bin(uint8_t *bin, size_t len, const fp3_t a) {
	if (len != 3 * RLC_FP_BYTES) {
		RLC_THROW(ERR_NO_BUFFER);
	}
	fp_write_bin(bin, RLC_FP_BYTES, a[0]);
	fp_write_bin(bin + RLC_FP_BYTES, RLC_FP_BYTES, a[1]);
	fp_write_bin(bin + 2 * RLC_FP_BYTES, RLC_FP_BYTES, a[2]);
}

/* ------------------------------------------------------------------ size/read/write agreement */
int bad_len_agree__tst_size_bin(fp3_t a, int pack) {
	if (pack) {
		return 2 * RLC_FP_BYTES;		/* advertised, but neither read nor written */
	}
	return 3 * RLC_FP_BYTES;
}

void tst_read_bin(fp3_t a, const uint8_t *bin, size_t len) {
	if (len != 3 * RLC_FP_BYTES) {
		RLC_THROW(ERR_NO_BUFFER);
		return;
	}
	fp_read_bin(a[0], bin, RLC_FP_BYTES);
	fp_read_bin(a[1], bin + RLC_FP_BYTES, RLC_FP_BYTES);
	fp_read_bin(a[2], bin + 2 * RLC_FP_BYTES, RLC_FP_BYTES);
}

void tst_write_bin(uint8_t *bin, size_t len, const fp3_t a) {
	if (len != 3 * RLC_FP_BYTES) {
		RLC_THROW(ERR_NO_BUFFER);
		return;
	}
	fp_write_bin(bin, RLC_FP_BYTES, a[0]);
	fp_write_bin(bin + RLC_FP_BYTES, RLC_FP_BYTES, a[1]);
	fp_write_bin(bin + 2 * RLC_FP_BYTES, RLC_FP_BYTES, a[2]);
}

int ok_agree__tst_size_bin(fp3_t a) {
	return 3 * RLC_FP_BYTES;
}

/* ------------------------------------------------------------------ range of field elements */
void ok_range__fp_read_bin(fp_t a, const uint8_t *bin, size_t len) {
	bn_t t;
	bn_null(t);
	if (len != RLC_FP_BYTES) {
		RLC_THROW(ERR_NO_BUFFER);
		return;
	}
	RLC_TRY {
		bn_new(t);
		bn_read_bin(t, bin, len);
		if (bn_sign(t) == RLC_NEG || bn_cmp(t, &core_get()->prime) != RLC_LT) {
			RLC_THROW(ERR_NO_VALID);
		} else {
			if (bn_is_zero(t)) {
				fp_zero(a);
			} else {
				fp_prime_conv(a, t);
			}
		}
	} RLC_CATCH_ANY {
		RLC_THROW(ERR_CAUGHT);
	} RLC_FINALLY {
		bn_free(t);
	}
}

/* `!= RLC_LT` weakened to `== RLC_GT`: the value p itself is accepted */
void bad_range_fp__fp_read_bin(fp_t a, const uint8_t *bin, size_t len) {
	bn_t t;
	bn_null(t);
	if (len != RLC_FP_BYTES) {
		RLC_THROW(ERR_NO_BUFFER);
		return;
	}
	RLC_TRY {
		bn_new(t);
		bn_read_bin(t, bin, len);
		if (bn_sign(t) == RLC_NEG || bn_cmp(t, &core_get()->prime) == RLC_GT) {
			RLC_THROW(ERR_NO_VALID);
		} else {
			fp_prime_conv(a, t);
		}
	} RLC_CATCH_ANY {
		RLC_THROW(ERR_CAUGHT);
	} RLC_FINALLY {
		bn_free(t);
	}
}

/* ------------------------------------------------------------------ range of binary-field elements */
void ok_range__fb_read_bin(fb_t a, const uint8_t *bin, size_t len) {
	bn_t t;
	bn_null(t);
	if (len != RLC_FB_BYTES) {
		RLC_THROW(ERR_NO_BUFFER);
		return;
	}
	RLC_TRY {
		bn_new(t);
		bn_read_bin(t, bin, len);
		if (bn_bits(t) > RLC_FB_BITS) {
			RLC_THROW(ERR_NO_VALID);
		}
		fb_copy(a, t->dp);
	} RLC_CATCH_ANY {
		RLC_THROW(ERR_CAUGHT);
	} RLC_FINALLY {
		bn_free(t);
	}
}

/* the spare top bits of the last byte are not checked: degree >= m accepted */
void bad_range_fb__fb_read_bin(fb_t a, const uint8_t *bin, size_t len) {
	bn_t t;
	bn_null(t);
	if (len != RLC_FB_BYTES) {
		RLC_THROW(ERR_NO_BUFFER);
		return;
	}
	RLC_TRY {
		bn_new(t);
		bn_read_bin(t, bin, len);
		fb_copy(a, t->dp);
	} RLC_CATCH_ANY {
		RLC_THROW(ERR_CAUGHT);
	} RLC_FINALLY {
		bn_free(t);
	}
}

/* a full-length input with tag 0 is accepted as the identity without reading the body */
void bad_dec_cover__early_infty__ep_read_bin(ep_t a, const uint8_t *bin, size_t len) {
	if (len != (2 * RLC_FP_BYTES + 1)) {
		RLC_THROW(ERR_NO_BUFFER);
		return;
	}
	if (bin[0] == 0) {
		ep_set_infty(a);
		return;
	}
	if (bin[0] != 4) {
		RLC_THROW(ERR_NO_VALID);
		return;
	}
	a->coord = BASIC;
	fp_set_dig(a->z, 1);
	fp_read_bin(a->x, bin + 1, RLC_FP_BYTES);
	fp_read_bin(a->y, bin + RLC_FP_BYTES + 1, RLC_FP_BYTES);
	if (!ep_on_curve(a)) {
		RLC_THROW(ERR_NO_VALID);
		return;
	}
}

/* ------------------------------------------------------------------ DEC-NF */
void ok_dec_nf__bn_read_str(bn_t a, const char *str, size_t len, uint_t radix) {
	int sign = (str[0] == '-') ? RLC_NEG : RLC_POS;
	bn_grow(a, 2);
	bn_zero(a);
	a->dp[0] = (dig_t)(str[len - 1] - '0');
	a->used = 1;
	a->sign = sign;
	bn_trim(a);
}

/* the sign is stored after the normalisation: "-0" decodes to a negative zero */
void bad_dec_nf__negzero__bn_read_str(bn_t a, const char *str, size_t len, uint_t radix) {
	int sign = (str[0] == '-') ? RLC_NEG : RLC_POS;
	bn_grow(a, 2);
	bn_zero(a);
	a->dp[0] = (dig_t)(str[len - 1] - '0');
	a->used = 1;
	bn_trim(a);
	a->sign = sign;
}

/* ------------------------------------------------------------------ ENC-NORM */
void ok_enc_norm__ep_write_bin(uint8_t *bin, size_t len, const ep_t a, int pack) {
	ep_t t;
	ep_null(t);
	ep_new(t);
	if (len < RLC_FP_BYTES + 1) {
		RLC_THROW(ERR_NO_BUFFER);
		return;
	}
	ep_norm(t, a);
	ep_pck(t, t);
	bin[0] = 2 | fp_get_bit(t->y, 0);
	fp_write_bin(bin + 1, RLC_FP_BYTES, t->x);
}

/* the compression works on the caller's point, which may be projective */
void bad_enc_norm__input__ep_write_bin(uint8_t *bin, size_t len, const ep_t a, int pack) {
	ep_t t;
	ep_null(t);
	ep_new(t);
	if (len < RLC_FP_BYTES + 1) {
		RLC_THROW(ERR_NO_BUFFER);
		return;
	}
	ep_norm(t, a);
	ep_pck(t, a);
	bin[0] = 2 | fp_get_bit(t->y, 0);
	fp_write_bin(bin + 1, RLC_FP_BYTES, t->x);
}

/* ------------------------------------------------------------------ DEC-DEF */
/* z and the coordinate system are left to the decompression, which assigns them only when x has a square root */
void bad_dec_def__stale_z__ep_read_bin(ep_t a, const uint8_t *bin, size_t len) {
	if (len != (RLC_FP_BYTES + 1)) {
		RLC_THROW(ERR_NO_BUFFER);
		return;
	}
	fp_read_bin(a->x, bin + 1, RLC_FP_BYTES);
	switch (bin[0]) {
		case 2:
			fp_zero(a->y);
			break;
		case 3:
			fp_zero(a->y);
			fp_set_bit(a->y, 0, 1);
			break;
		default:
			RLC_THROW(ERR_NO_VALID);
			return;
	}
	ep_upk(a, a);
	if (!ep_on_curve(a)) {
		RLC_THROW(ERR_NO_VALID);
		return;
	}
}

/* ------------------------------------------------------------------ PCK-SIB */
void ok_pck_sib__ep2_pck(ep2_t r, const ep2_t p) {
	bn_t h, y;
	bn_null(h); bn_null(y); bn_new(h); bn_new(y);
	fp_prime_back(y, p->y[1]);
	if (bn_is_zero(y)) {
		fp_prime_back(y, p->y[0]);
	}
	fp2_copy(r->x, p->x);
	fp2_zero(r->y);
	fp_set_bit(r->y[0], 0, bn_cmp(y, h) == RLC_GT);
}

int ok_pck_sib__ep2_upk(ep2_t r, const ep2_t p) {
	bn_t h, y;
	fp2_t t;
	bn_null(h); bn_null(y); bn_new(h); bn_new(y);
	ep2_rhs(t, p->x);
	fp_prime_back(y, t[1]);
	if (bn_is_zero(y)) {
		fp_prime_back(y, t[0]);
	}
	if ((bn_cmp(y, h) == RLC_GT) != fp_get_bit(p->y[0], 0)) {
		fp2_neg(t, t);
	}
	fp2_copy(r->y, t);
	return 1;
}

/* the compression never looks at y[0]: points with y[1] = 0 come back negated */
void bad_pck_sib__y1_only__ep2_pck(ep2_t r, const ep2_t p) {
	bn_t h, y;
	bn_null(h); bn_null(y); bn_new(h); bn_new(y);
	fp_prime_back(y, p->y[1]);
	fp2_copy(r->x, p->x);
	fp2_zero(r->y);
	fp_set_bit(r->y[0], 0, bn_cmp(y, h) == RLC_GT);
}

/* ------------------------------------------------------------------ DEC-UNPACK */
void ok_dec_unpack__fp2_read_bin(fp2_t a, const uint8_t *bin, size_t len) {
	if (len != RLC_FP_BYTES + 1) {
		RLC_THROW(ERR_NO_BUFFER);
		return;
	}
	fp_read_bin(a[0], bin, RLC_FP_BYTES);
	fp_zero(a[1]);
	fp_set_bit(a[1], 0, bin[RLC_FP_BYTES]);
	if (!fp2_upk(a, a)) {
		RLC_THROW(ERR_NO_VALID);
		return;
	}
}

/* whether the decompression found a square root is never looked at */
void bad_dec_unpack__ignored__fp2_read_bin(fp2_t a, const uint8_t *bin, size_t len) {
	if (len != RLC_FP_BYTES + 1) {
		RLC_THROW(ERR_NO_BUFFER);
		return;
	}
	fp_read_bin(a[0], bin, RLC_FP_BYTES);
	fp_zero(a[1]);
	fp_set_bit(a[1], 0, bin[RLC_FP_BYTES]);
	fp2_upk(a, a);
}

/* the range test held in a local before it is branched on (behaviour-preserving) */
void ok_hoisted__fp_read_bin(fp_t a, const uint8_t *bin, size_t len) {
	bn_t t;
	bn_null(t);
	if (len != RLC_FP_BYTES) {
		RLC_THROW(ERR_NO_BUFFER);
		return;
	}
	RLC_TRY {
		bn_new(t);
		bn_read_bin(t, bin, len);
		int bad = (bn_sign(t) == RLC_NEG ||
				bn_cmp(t, &core_get()->prime) != RLC_LT);
		if (bad) {
			RLC_THROW(ERR_NO_VALID);
		} else {
			if (bn_is_zero(t)) {
				fp_zero(a);
			} else {
				fp_prime_conv(a, t);
			}
		}
	} RLC_CATCH_ANY {
		RLC_THROW(ERR_CAUGHT);
	} RLC_FINALLY {
		bn_free(t);
	}
}
