/* Self-test miniatures for the C09 rules (parsed only). */
#include "relic.h"

void ok_a__bn_gen_prime_basic(bn_t a, size_t bits) {
	while (1) {
		do {
			bn_rand(a, RLC_POS, bits);
		} while (bn_bits(a) != bits);
		if (bn_is_prime(a)) {
			return;
		}
	}
}

/* the length loop accepts shorter candidates */
void bad_gen_post__short__bn_gen_prime_basic(bn_t a, size_t bits) {
	while (1) {
		do {
			bn_rand(a, RLC_POS, bits);
		} while (bn_bits(a) > bits);
		if (bn_is_prime(a)) {
			return;
		}
	}
}

/* the candidate is stepped after the test */
void bad_gen_post__step__bn_gen_prime_safep(bn_t a, size_t bits) {
	while (1) {
		bn_rand(a, RLC_POS, bits);
		if (bn_is_prime(a)) {
			bn_add_dig(a, a, 2);
			return;
		}
	}
}

void ok_b__bn_gen_prime_stron(bn_t a, size_t bits) {
	int found;
	dig_t j;
	do {
		found = 1;
		bn_rand(a, RLC_POS, 16);
		j = a->dp[0];
		do {
			bn_set_dig(a, j);
			j++;
			if (bn_bits(a) > bits) {
				found = 0;
				break;
			}
		} while (!bn_is_prime(a));
	} while (found == 0 || bn_bits(a) != bits);
}

/* a prime of any length ends the search */
void bad_gen_post__and__bn_gen_prime_stron(bn_t a, size_t bits) {
	int found;
	dig_t j;
	do {
		found = 1;
		bn_rand(a, RLC_POS, 16);
		j = a->dp[0];
		do {
			bn_set_dig(a, j);
			j++;
			if (bn_bits(a) > bits) {
				found = 0;
				break;
			}
		} while (!bn_is_prime(a));
	} while (found == 0 && bn_bits(a) != bits);
}

void ok_c__bn_mxp_basic(bn_t c, const bn_t a, const bn_t b, const bn_t m) {
	bn_t r;

	if (bn_cmp_dig(m, 1) == RLC_EQ) {
		bn_zero(c);
		return;
	}
	if (bn_is_zero(b)) {
		bn_set_dig(c, 1);
		return;
	}
	bn_null(r);
	bn_new(r);
	bn_copy(r, a);
	for (int i = bn_bits(b) - 2; i >= 0; i--) {
		bn_sqr(r, r);
		bn_mod(r, r, m);
	}
	if (bn_sign(b) == RLC_NEG) {
		bn_mod_inv(c, r, m);
	} else {
		bn_copy(c, r);
	}
	bn_free(r);
}

void bad_mxp_sib__nosign__bn_mxp_slide(bn_t c, const bn_t a, const bn_t b, const bn_t m) {
	bn_t r;

	if (bn_is_zero(b)) {
		bn_set_dig(c, 1);
		return;
	}
	bn_null(r);
	bn_new(r);
	bn_copy(r, a);
	for (int i = bn_bits(b) - 2; i >= 0; i--) {
		bn_sqr(r, r);
		bn_mod(r, r, m);
	}
	bn_copy(c, r);
	bn_free(r);
}

void ok_d__bn_srt(bn_t c, bn_t a) {
	if (bn_sign(a) == RLC_NEG) {
		RLC_THROW(ERR_NO_VALID);
		return;
	}
	bn_copy(c, a);
}

/* the root of |a| is returned */
void bad_arg_guard__abs__bn_srt(bn_t c, bn_t a) {
	if (bn_sign(a) == RLC_NEG) {
		bn_abs(c, a);
		return;
	}
	bn_copy(c, a);
}

/* even moduli accepted */
int bad_arg_guard__even__bn_smb_jac(const bn_t a, const bn_t b) {
	if (bn_sign(b) == RLC_NEG) {
		RLC_THROW(ERR_NO_VALID);
		return 0;
	}
	return bn_is_even(a) ? 0 : 1;
}

int ok_e__bn_is_prime(const bn_t a) {
	int result = 0;
	if (!bn_is_prime_basic(a)) {
		goto end;
	}
	if (bn_bits(a) <= 23) {
		/* below 3671^2 trial division is conclusive */
		result = 1;
		goto end;
	}
	if (!bn_is_prime_rabin(a)) {
		goto end;
	}
	result = 1;
  end:
	return result;
}

/* 2^24 is above the square of the last trial prime */
int bad_prime_pipe__bound__bn_is_prime(const bn_t a) {
	int result = 0;
	if (!bn_is_prime_basic(a)) {
		goto end;
	}
	if (bn_bits(a) <= 24) {
		result = 1;
		goto end;
	}
	if (!bn_is_prime_rabin(a)) {
		goto end;
	}
	result = 1;
  end:
	return result;
}

/* ------------------------------------------------------------------ MXP-SIM-SIGN */
void ok_simsign__bn_mxp_sim_few(bn_t c, const bn_t *a, const bn_t *b, const bn_t m, size_t n) {
	bn_t t;
	bn_null(t);
	bn_new(t);
	bn_set_dig(c, 1);
	for (size_t i = 0; i < n; i++) {
		if (bn_sign(b[i]) == RLC_NEG) {
			bn_mod_inv(t, a[i], m);
		} else {
			bn_copy(t, a[i]);
		}
		for (int j = bn_bits(b[i]) - 1; j >= 0; j--) {
			bn_sqr(c, c);
			bn_mod(c, c, m);
			if (bn_get_bit(b[i], j)) {
				bn_mul(c, c, t);
				bn_mod(c, c, m);
			}
		}
	}
}

/* the magnitudes of the exponents only */
void bad_mxp_sim_sign__magnitude__bn_mxp_sim_few(bn_t c, const bn_t *a, const bn_t *b, const bn_t m, size_t n) {
	bn_set_dig(c, 1);
	for (size_t i = 0; i < n; i++) {
		for (int j = bn_bits(b[i]) - 1; j >= 0; j--) {
			bn_sqr(c, c);
			bn_mod(c, c, m);
			if (bn_get_bit(b[i], j)) {
				bn_mul(c, c, a[i]);
				bn_mod(c, c, m);
			}
		}
	}
}
