/* Self-test miniatures for the C13 rules (parsed only). */
#include "relic.h"

void ok_map__st_map(ep_t p, const uint8_t *msg, size_t len) {
	fp_t t;
	fp_read_bin(t, msg, RLC_FP_BYTES);
	fp_copy(p->x, t);
	fp_zero(p->y);
	fp_set_dig(p->z, 1);
	p->coord = BASIC;
	ep_upk(p, p);
	ep_mul_cof(p, p);
}

/* cofactor clearing skipped when the first try already lands on the curve */
void bad_map_cof__skipped__st_map(ep_t p, const uint8_t *msg, size_t len) {
	fp_t t;
	fp_read_bin(t, msg, RLC_FP_BYTES);
	fp_copy(p->x, t);
	if (ep_upk(p, p)) {
		return;
	}
	fp_add_dig(p->x, p->x, 1);
	ep_upk(p, p);
	ep_mul_cof(p, p);
}

/* random blinding of the input mixed into the map */
void bad_map_pure__rand__st_map(ep_t p, const uint8_t *msg, size_t len) {
	fp_t t;
	fp_rand(t);
	fp_copy(p->x, t);
	ep_upk(p, p);
	ep_mul_cof(p, p);
}

/* scratch kept in a static buffer */
void bad_map_pure__static__st_map(ep_t p, const uint8_t *msg, size_t len) {
	static uint8_t buf[2 * RLC_FP_BYTES];
	memcpy(buf, msg, len < sizeof(buf) ? len : sizeof(buf));
	fp_read_bin(p->x, buf, RLC_FP_BYTES);
	ep_upk(p, p);
	ep_mul_cof(p, p);
}

void ok_cof__ep9_mul_cof(ep_t r, const ep_t p) {
	bn_t k;
	fp_prime_get_par(k);
	switch (ep_curve_is_pairf()) {
		case EP_BN:
			ep_copy(r, p);
			break;
		case EP_B12:
			bn_neg(k, k);
			bn_add_dig(k, k, 1);
			ep_mul_basic(r, p, k);
			break;
		default:
			ep_curve_get_cof(k);
			ep_mul_big(r, p, k);
	}
}

/* copies the input for every curve that is not pairing-friendly */
void bad_cof_id__nonpairing__ep9_mul_cof(ep_t r, const ep_t p) {
	bn_t k;
	fp_prime_get_par(k);
	switch (ep_curve_is_pairf()) {
		case 0:
			ep_copy(r, p);
			break;
		case EP_B12:
			bn_neg(k, k);
			bn_add_dig(k, k, 1);
			ep_mul_basic(r, p, k);
			break;
		default:
			ep_curve_get_cof(k);
			ep_mul_big(r, p, k);
	}
}

/* the family arm multiplies by (1 - h) instead of (1 - x) */
void bad_cof_param__overwritten__ep9_mul_cof(ep_t r, const ep_t p) {
	bn_t k;
	fp_prime_get_par(k);
	ep_curve_get_cof(k);
	if (bn_cmp_dig(k, 1) == RLC_EQ) {
		ep_copy(r, p);
	} else switch (ep_curve_is_pairf()) {
		case EP_B12:
			bn_neg(k, k);
			bn_add_dig(k, k, 1);
			ep_mul_basic(r, p, k);
			break;
		default:
			ep_mul_big(r, p, k);
	}
}

/* one arm leaves the result untouched */
void bad_out_def__untouched__ep9_mul_cof(ep_t r, const ep_t p) {
	bn_t k;
	fp_prime_get_par(k);
	switch (ep_curve_is_pairf()) {
		case EP_BN:
			break;
		default:
			ep_curve_get_cof(k);
			ep_mul_big(r, p, k);
	}
}

/* MAP-DEF: the second component of x keeps what the caller's point held */
void bad_map_def__component__st_map(ep2_t p, const uint8_t *msg, size_t len) {
	bn_t x;
	fp2_t t0;
	bn_null(x);
	bn_new(x);
	bn_read_bin(x, msg, len);
	fp_prime_conv(p->x[0], x);
	fp2_set_dig(p->z, 1);
	ep2_rhs(t0, p->x);
	fp2_srt(p->y, t0);
	p->coord = BASIC;
	ep2_mul_cof(p, p);
}

void ok_map_def__st_map(ep2_t p, const uint8_t *msg, size_t len) {
	bn_t x;
	fp2_t t0;
	bn_null(x);
	bn_new(x);
	bn_read_bin(x, msg, len);
	fp2_zero(p->x);
	fp_prime_conv(p->x[0], x);
	fp2_set_dig(p->z, 1);
	ep2_rhs(t0, p->x);
	fp2_srt(p->y, t0);
	p->coord = BASIC;
	ep2_mul_cof(p, p);
}

/* MAP-DEF: the coordinate system is whatever the point had */
void bad_map_def__coord__st_map(ep_t p, const uint8_t *msg, size_t len) {
	fp_t t;
	fp_read_bin(t, msg, RLC_FP_BYTES);
	fp_copy(p->x, t);
	fp_sqr(p->y, t);
	fp_set_dig(p->z, 1);
	ep_mul_cof(p, p);
}

/* MAP-HIST: the search for the map parameter continues where the previous curve stopped */
void bad_map_hist__search(void) {
	ctx_t *ctx = core_get();
	do {
		fp_add_dig(ctx->ep_map_u, ctx->ep_map_u, 1);
	} while (fp_is_sqr(ctx->ep_map_u));
}

/* RHS-SHAPE */
void ok_rhs_shape(fp_t c0, const fp_t u) {
	ctx_t *ctx = core_get();
	fp_sqr(c0, u);
	fp_add(c0, c0, ctx->ep_a);
	fp_mul(c0, c0, u);
	fp_add(c0, c0, ctx->ep_b);
}

/* (c1^2 + a) * u + b is not g of anything */
void bad_rhs_shape__other_multiplier(fp_t c0, const fp_t c1, const fp_t u) {
	ctx_t *ctx = core_get();
	fp_sqr(c0, c1);
	fp_add(c0, c0, ctx->ep_a);
	fp_mul(c0, c0, u);
	fp_add(c0, c0, ctx->ep_b);
}

/* INV-GUARD */
void ok_inv_guard__st_map_sswu(ep_t p, const fp_t t) {
	fp_t t0, t2, t3;
	fp_sqr(t0, t);
	fp_add(t2, t0, t);
	{
		const int e1 = fp_is_zero(t2);
		fp_neg(t3, t);
		fp_copy_sec(t2, t3, e1);
		fp_inv(t2, t2);
	}
	fp_copy(p->x, t2);
}

/* the flag is the zero test of another value: the vanishing denominator goes into the inversion */
void bad_inv_guard__other_flag__st_map_sswu(ep_t p, const fp_t t) {
	fp_t t0, t2, t3;
	fp_sqr(t0, t);
	fp_add(t2, t0, t);
	{
		const int e1 = fp_is_zero(t0);
		fp_neg(t3, t);
		fp_copy_sec(t2, t3, e1);
		fp_inv(t2, t2);
	}
	fp_copy(p->x, t2);
}

/* PAR-ABS: 1 - x computed from |x|: right for BLS12-381 (x < 0) only */
void bad_par_abs__abs__ep9_mul_cof(ep_t r, const ep_t p) {
	bn_t k;
	fp_prime_get_par(k);
	switch (ep_curve_is_pairf()) {
		case EP_BN:
			ep_copy(r, p);
			break;
		case EP_B12:
			bn_abs(k, k);
			bn_add_dig(k, k, 1);
			ep_mul_basic(r, p, k);
			break;
		default:
			ep_curve_get_cof(k);
			ep_mul_big(r, p, k);
	}
}

void ed_map_ell2_5mod8_st(ed_t p, const fp_t t);

/* the three Edwards doublings written as a counted loop (behaviour-preserving) */
void ok_map_loop_st_map(ed_t p, const uint8_t *msg, size_t len) {
	fp_t t;
	fp_null(t);
	RLC_TRY {
		fp_new(t);
		fp_read_bin(t, msg, len);
		ed_map_ell2_5mod8_st(p, t);
		switch (ed_param_get()) {
			case CURVE_ED25519:
				for (int i = 0; i < 3; i++) {
					ed_dbl(p, p);
				}
				break;
			default:
				RLC_THROW(ERR_NO_VALID);
				break;
		}
	} RLC_CATCH_ANY {
		RLC_THROW(ERR_CAUGHT);
	} RLC_FINALLY {
		fp_free(t);
	}
}

/* two doublings only */
void bad_map_cof__two_st_map(ed_t p, const uint8_t *msg, size_t len) {
	fp_t t;
	fp_null(t);
	fp_new(t);
	fp_read_bin(t, msg, len);
	ed_map_ell2_5mod8_st(p, t);
	for (int i = 0; i < 2; i++) {
		ed_dbl(p, p);
	}
	fp_free(t);
}
