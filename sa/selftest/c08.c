/* Self-test miniatures for the C08 rules (parsed only; BASE and DYNAMIC headers). */
#include "relic.h"

/* ------------------------------------------------------------------ BUF-LEN */
void ok_buf__naf(const bn_t k) {
	int8_t naf[RLC_FP_BITS + 1];
	size_t l = RLC_FP_BITS + 1;
	bn_rec_naf(naf, &l, k, 4);
}

void ok_buf__alloca(const bn_t k) {
	size_t l = bn_bits(k) + 1;
	int8_t *naf = RLC_ALLOCA(int8_t, l);
	if (naf == NULL) {
		RLC_THROW(ERR_NO_MEMORY);
		return;
	}
	bn_rec_naf(naf, &l, k, 2);
	RLC_FREE(naf);
}

void ok_buf__rows(const bn_t *k, size_t n) {
	size_t len = RLC_FP_BITS + 1, _l[2];
	int8_t *naf = RLC_ALLOCA(int8_t, 2 * n * len);
	if (naf == NULL) {
		RLC_THROW(ERR_NO_MEMORY);
		return;
	}
	for (size_t i = 0; i < n; i++) {
		for (size_t j = 0; j < 2; j++) {
			_l[j] = len;
			bn_rec_naf(&naf[(2 * i + j) * len], &_l[j], k[i], 2);
		}
	}
	RLC_FREE(naf);
}

/* array one entry shorter than the length announced to the recoder */
void bad_buf_len__short_array(const bn_t k) {
	int8_t reg[RLC_CEIL(RLC_FP_BITS + 1, RLC_WIDTH - 1)];
	size_t l = RLC_CEIL(RLC_FP_BITS + 1, RLC_WIDTH - 1) + 1;
	bn_rec_reg(reg, &l, k, RLC_FP_BITS, RLC_WIDTH);
}

/* stack allocation sized without the + 1 */
void bad_buf_len__short_alloca(const bn_t k) {
	size_t l = bn_bits(k) + 1;
	int8_t *naf = RLC_ALLOCA(int8_t, bn_bits(k));
	if (naf == NULL) {
		RLC_THROW(ERR_NO_MEMORY);
		return;
	}
	bn_rec_naf(naf, &l, k, 2);
	RLC_FREE(naf);
}

/* ------------------------------------------------------------------ REC-GUARD */
void ok_guard__bn_rec_win(uint8_t *win, size_t *len, const bn_t k, size_t w) {
	int j = 0, l = bn_bits(k);
	if (*len < RLC_CEIL(l, w)) {
		*len = 0;
		RLC_THROW(ERR_NO_BUFFER);
		return;
	}
	memset(win, 0, *len);
	win[j++] = 1;
	*len = j;
}

/* the test comes after the first write */
void bad_rec_guard__late__bn_rec_win(uint8_t *win, size_t *len, const bn_t k, size_t w) {
	int j = 0, l = bn_bits(k);
	memset(win, 0, l);
	if (*len < RLC_CEIL(l, w)) {
		*len = 0;
		RLC_THROW(ERR_NO_BUFFER);
		return;
	}
	win[j++] = 1;
	*len = j;
}

/* the refusal has no return: outside a TRY it falls through into the writes */
void bad_rec_guard__fallthrough__bn_rec_win(uint8_t *win, size_t *len, const bn_t k, size_t w) {
	int j = 0, l = bn_bits(k);
	if (*len < RLC_CEIL(l, w)) {
		*len = 0;
		RLC_THROW(ERR_NO_BUFFER);
	}
	win[j++] = 1;
	*len = j;
}

/* ------------------------------------------------------------------ CAP */
void ok_cap__set_bit(bn_t a, uint_t bit) {
	int d;
	RLC_RIP(bit, d, bit);
	bn_grow(a, d + 1);
	a->dp[d] |= ((dig_t)1 << bit);
}

/* asks for d digits, stores digit number d */
void bad_cap__set_bit(bn_t a, uint_t bit) {
	int d;
	RLC_RIP(bit, d, bit);
	bn_grow(a, d);
	a->dp[d] |= ((dig_t)1 << bit);
}

/* capacity requested from ->used before the carry digit is accounted for */
void bad_cap__carry(bn_t c, const bn_t a) {
	dig_t carry;
	RLC_TRY {
		c->used = a->used;
		bn_grow(c, c->used);
		carry = bn_lsh1_low(c->dp, a->dp, c->used);
		if (carry != 0) {
			c->dp[c->used] = carry;
			(c->used)++;
		}
	} RLC_CATCH_ANY {
		RLC_THROW(ERR_CAUGHT);
	}
}

/* ------------------------------------------------------------------ COPY-IN */
void ok_copy_in__bounded(const bn_t k) {
	dig_t t[RLC_FP_DIGS];
	if (k->used > RLC_FP_DIGS) {
		RLC_THROW(ERR_NO_VALID);
		return;
	}
	dv_copy(t, k->dp, k->used);
}

void bad_copy_in__unbounded(const bn_t k) {
	dig_t t[RLC_FP_DIGS];
	dv_copy(t, k->dp, k->used);
}

/* ------------------------------------------------------------------ N0 */
void ok_n0__inv_sim(fp_t *c, const fp_t *a, int n) {
	if (n == 0) {
		return;
	}
	fp_copy(c[0], a[0]);
	for (int i = 1; i < n; i++) {
		fp_mul(c[i], c[i - 1], a[i]);
	}
	fp_inv(c[n - 1], c[n - 1]);
}

void bad_n0__inv_sim(fp_t *c, const fp_t *a, int n) {
	fp_copy(c[0], a[0]);
	for (int i = 1; i < n; i++) {
		fp_mul(c[i], c[i - 1], a[i]);
	}
	fp_inv(c[n - 1], c[n - 1]);
}

/* ------------------------------------------------------------------ TYPESTATE (DYNAMIC allocation) */
void ok_typestate__nulled(const bn_t a) {
	bn_t t, u;
	bn_null(t);
	bn_null(u);
	RLC_TRY {
		bn_new(t);
		bn_new(u);
		bn_add(t, a, a);
	} RLC_CATCH_ANY {
		RLC_THROW(ERR_CAUGHT);
	} RLC_FINALLY {
		bn_free(t);
		bn_free(u);
	}
}

/* u is never nulled: when bn_new(t) fails the finaliser tests and frees an indeterminate pointer */
void bad_typestate__never_nulled_only_dyn(const bn_t a) {
	bn_t t, u;
	bn_null(t);
	RLC_TRY {
		bn_new(t);
		bn_new(u);
		bn_add(t, a, a);
	} RLC_CATCH_ANY {
		RLC_THROW(ERR_CAUGHT);
	} RLC_FINALLY {
		bn_free(t);
		bn_free(u);
	}
}

/* ------------------------------------------------------------------ DIV0 */
void ok_div0__guarded(dig_t *c, const bn_t a, dig_t b) {
	if (b == 0) {
		RLC_THROW(ERR_NO_VALID);
		return;
	}
	*c = a->dp[0] % b;
}

void bad_div0__unguarded(dig_t *c, const bn_t a, dig_t b) {
	*c = a->dp[0] % b;
}

/* ------------------------------------------------------------------ REC-GUARD (bounds in force at the write) */
/* the column count grows after the capacity was tested against it */
void bad_rec_guard__grown__bn_rec_sac(int8_t *b, size_t *len, const bn_t *k, const bn_t u, size_t c, size_t m, size_t n, int cof) {
	size_t l = RLC_CEIL(n, c * m) + 1;
	if (*len <= l) {
		*len = 0;
		RLC_THROW(ERR_NO_BUFFER);
		return;
	}
	l = RLC_MAX(l, bn_bits(u) + 1);
	memset(b, 0, *len);
	b[l - 1] = 0;
	*len = l;
}

/* ... and is tested again before the writes */
void ok_guard__regrown__bn_rec_sac(int8_t *b, size_t *len, const bn_t *k, const bn_t u, size_t c, size_t m, size_t n, int cof) {
	size_t l = RLC_CEIL(n, c * m) + 1;
	if (*len <= l) {
		*len = 0;
		RLC_THROW(ERR_NO_BUFFER);
		return;
	}
	l = RLC_MAX(l, bn_bits(u) + 1);
	if (*len < l) {
		*len = 0;
		RLC_THROW(ERR_NO_BUFFER);
		return;
	}
	memset(b, 0, *len);
	b[l - 1] = 0;
	*len = l;
}

/* a data-dependent number of entries, each store bounded by the capacity */
void ok_guard__indexed__bn_rec_tnaf(int8_t *tnaf, size_t *len, const bn_t k, int8_t u, size_t m, size_t w) {
	size_t i = 0;
	bn_t t;
	bn_null(t);
	if (*len < 1) {
		*len = 0;
		RLC_THROW(ERR_NO_BUFFER);
		return;
	}
	RLC_TRY {
		bn_new(t);
		bn_abs(t, k);
		while (!bn_is_zero(t)) {
			if (i < *len) {
				tnaf[i] = bn_is_even(t);
				i++;
			}
			bn_hlv(t, t);
		}
		*len = i;
	} RLC_CATCH_ANY {
		RLC_THROW(ERR_CAUGHT);
	} RLC_FINALLY {
		bn_free(t);
	}
}

/* ------------------------------------------------------------------ WRAP */
void ok_wrap__guarded(dig_t *c, const dig_t *a, size_t size, uint_t digits) {
	size_t i;
	if (digits > size) {
		digits = size;
	}
	for (i = 0; i < size - digits; i++) {
		c[i] = a[i + digits];
	}
}

void ok_wrap__sum(uint8_t *win, const bn_t k, size_t w) {
	int i, j = 0, l = bn_bits(k);
	for (i = 0; i + w < l; i += w) {
		win[j++] = 1;
	}
}

/* size - digits wraps for digits > size: the loop runs off both vectors */
void bad_wrap__difference(dig_t *c, const dig_t *a, size_t size, uint_t digits) {
	size_t i;
	for (i = 0; i < size - digits; i++) {
		c[i] = a[i + digits];
	}
}

/* ------------------------------------------------------------------ WRITE-GUARD */
void ok_wguard__tested_first(char *str, size_t len, const bn_t a) {
	if (len < 2) {
		RLC_THROW(ERR_NO_BUFFER);
		return;
	}
	if (bn_is_zero(a)) {
		str[0] = '0';
		str[1] = '\0';
		return;
	}
	memset(str, 0, len);
}

/* the short form is written before the capacity has been looked at */
void bad_write_guard__fast_path(char *str, size_t len, const bn_t a) {
	if (bn_is_zero(a)) {
		str[0] = '0';
		str[1] = '\0';
		return;
	}
	if (len < 2) {
		RLC_THROW(ERR_NO_BUFFER);
		return;
	}
	memset(str, 0, len);
}

/* ------------------------------------------------------------------ REALLOC-KEEP */
struct st_vec {
	dig_t *dp;
	size_t alloc;
};

void ok_realloc__temporary(struct st_vec *a, size_t digits) {
	dig_t *t = (dig_t *)realloc(a->dp, (RLC_DIG / 8) * digits);
	if (t == NULL) {
		RLC_THROW(ERR_NO_MEMORY);
		return;
	}
	a->dp = t;
}

/* a failed reallocation overwrites the only pointer to the digits */
void bad_realloc_keep__overwrites_only_dyn(struct st_vec *a, size_t digits) {
	a->dp = (dig_t *)realloc(a->dp, (RLC_DIG / 8) * digits);
	if (a->dp == NULL) {
		RLC_THROW(ERR_NO_MEMORY);
		return;
	}
}

/* ------------------------------------------------------------------ REC-EMPTY */
void ok_rec_empty__tested(ep_t r, const ep_t *t, const bn_t k) {
	int8_t naf[RLC_FP_BITS + 1];
	size_t l = RLC_FP_BITS + 1;
	bn_t m, n;
	bn_null(m); bn_null(n); bn_new(m); bn_new(n);
	ep_curve_get_ord(n);
	bn_mod(m, k, n);
	if (bn_is_zero(m)) {
		ep_set_infty(r);
		return;
	}
	bn_rec_naf(naf, &l, m, 4);
	ep_copy(r, t[naf[l - 1] / 2]);
}

/* zero is tested before the reduction: k = n reduces to zero and the recoding is empty */
void bad_rec_empty__before_reduction(ep_t r, const ep_t *t, const bn_t k) {
	int8_t naf[RLC_FP_BITS + 1];
	size_t l = RLC_FP_BITS + 1;
	bn_t m, n;
	if (bn_is_zero(k)) {
		ep_set_infty(r);
		return;
	}
	bn_null(m); bn_null(n); bn_new(m); bn_new(n);
	ep_curve_get_ord(n);
	bn_mod(m, k, n);
	bn_rec_naf(naf, &l, m, 4);
	ep_copy(r, t[naf[l - 1] / 2]);
}

/* ------------------------------------------------------------------ SHIFT-WIDEN */
int ok_shift__digit_type(const dig_t *k, size_t len, int i) {
	const dig_t bit = (dig_t)1 << i;
	int tab = 1 << (i & 3);
	return (k[0] & bit) != 0 && tab > 0;
}

/* the mask is built in int: bits 31..63 of the digits are never seen */
int bad_shift_widen__int_mask(const dig_t *k, size_t len, int i) {
	const dig_t bit = 1 << i;
	return (k[0] & bit) != 0;
}

/* ------------------------------------------------------------------ CEIL-ZERO */
void ok_ceil__guarded(uint8_t *out, size_t out_len) {
	int m = (out_len == 0 ? 0 : RLC_CEIL(out_len, RLC_MD_LEN));
	for (int i = 0; i < m; i++) {
		out[i] = 0;
	}
}

/* the block count of an empty request wraps */
void bad_ceil_zero__wraps(uint8_t *out, size_t out_len) {
	int m = RLC_CEIL(out_len, RLC_MD_LEN);
	for (int i = 0; i < m; i++) {
		out[i] = 0;
	}
}

/* GUARD-RANGE: the block count is narrowed before the limit is tested */
void ok_guard_range__wide(uint8_t *buf, int buf_len) {
	const unsigned ell = (buf_len + 31) / 32;
	if (buf_len < 0 || ell > 255) {
		RLC_THROW(ERR_NO_VALID);
		return;
	}
	buf[0] = (uint8_t)ell;
}

void bad_guard_range__narrow(uint8_t *buf, int buf_len) {
	const uint8_t ell = (buf_len + 31) / 32;
	if (buf_len < 0 || ell > 255) {
		RLC_THROW(ERR_NO_VALID);
		return;
	}
	buf[0] = ell;
}

/* GROW-FIRST: the length is committed before the capacity is requested */
void ok_grow_first__lsh(bn_t c, const bn_t a, int digits) {
	bn_grow(c, a->used + digits);
	c->used = a->used + digits;
	c->sign = a->sign;
	dv_lshd(c->dp, a->dp, c->used, digits);
	bn_trim(c);
}

void bad_grow_first__lsh(bn_t c, const bn_t a, int digits) {
	c->used = a->used + digits;
	bn_grow(c, c->used);
	c->sign = a->sign;
	dv_lshd(c->dp, a->dp, c->used, digits);
	bn_trim(c);
}

/* SHIFT-WIDEN, second clause: the mask that selects a bit of a digit is built in 32 bits */
int ok_shift_mask(dig_t b, int i) {
	return (b & ((dig_t)1 << i)) != 0;
}

int bad_shift_widen__mask(dig_t b, int i) {
	return (b & (1 << i)) != 0;
}

int bad_shift_widen__mask_var(const dig_t k[], int j, int i) {
	const unsigned int mask = 1u << i;
	return (k[j] & mask) != 0;
}

/* WINDOW-FIT: the window ladder was extended by one step over a table sized for the old maximum */
void ok_window_fit__slide(bn_t c, const bn_t a, size_t l) {
	bn_t tab[64];
	size_t w = 1;
	if (l <= 256) {
		w = 5;
	} else {
		w = 7;
	}
	for (size_t i = 0; i < (1 << (w - 1)); i++) {
		bn_null(tab[i]);
		bn_new(tab[i]);
		bn_copy(tab[i], a);
	}
	bn_copy(c, tab[0]);
}

void bad_window_fit__slide(bn_t c, const bn_t a, size_t l) {
	bn_t tab[64];
	size_t w = 1;
	if (l <= 256) {
		w = 5;
	} else if (l <= 1024) {
		w = 7;
	} else {
		w = 8;
	}
	for (size_t i = 0; i < (1 << (w - 1)); i++) {
		bn_null(tab[i]);
		bn_new(tab[i]);
		bn_copy(tab[i], a);
	}
	bn_copy(c, tab[0]);
}
