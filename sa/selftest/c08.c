/* Self-test miniatures for the C08 rules (parsed only; BASE and DYNAMIC headers). */
#include "relic.h"

/* ------------------------------------------------------------------ BUF-LEN */
void ok_buf__naf(const bn_t k) {
	int8_t naf[RLC_FP_BITS + 1];
	size_t l = RLC_FP_BITS + 1;
	bn_rec_naf(naf, &l, k, 4);
}

void ok_buf__alloca(const bn_t k) {
	size_t l = bn_bits(k) + 1;
	int8_t *naf = RLC_ALLOCA(int8_t, l);
	if (naf == NULL) {
		RLC_THROW(ERR_NO_MEMORY);
		return;
	}
	bn_rec_naf(naf, &l, k, 2);
	RLC_FREE(naf);
}

void ok_buf__rows(const bn_t *k, size_t n) {
	size_t len = RLC_FP_BITS + 1, _l[2];
	int8_t *naf = RLC_ALLOCA(int8_t, 2 * n * len);
	if (naf == NULL) {
		RLC_THROW(ERR_NO_MEMORY);
		return;
	}
	for (size_t i = 0; i < n; i++) {
		for (size_t j = 0; j < 2; j++) {
			_l[j] = len;
			bn_rec_naf(&naf[(2 * i + j) * len], &_l[j], k[i], 2);
		}
	}
	RLC_FREE(naf);
}

/* array one entry shorter than the length announced to the recoder */
void bad_buf_len__short_array(const bn_t k) {
	int8_t reg[RLC_CEIL(RLC_FP_BITS + 1, RLC_WIDTH - 1)];
	size_t l = RLC_CEIL(RLC_FP_BITS + 1, RLC_WIDTH - 1) + 1;
	bn_rec_reg(reg, &l, k, RLC_FP_BITS, RLC_WIDTH);
}

/* stack allocation sized without the + 1 */
void bad_buf_len__short_alloca(const bn_t k) {
	size_t l = bn_bits(k) + 1;
	int8_t *naf = RLC_ALLOCA(int8_t, bn_bits(k));
	if (naf == NULL) {
		RLC_THROW(ERR_NO_MEMORY);
		return;
	}
	bn_rec_naf(naf, &l, k, 2);
	RLC_FREE(naf);
}

/* ------------------------------------------------------------------ REC-GUARD */
void ok_guard__bn_rec_win(uint8_t *win, size_t *len, const bn_t k, size_t w) {
	int j = 0, l = bn_bits(k);
	if (*len < RLC_CEIL(l, w)) {
		*len = 0;
		RLC_THROW(ERR_NO_BUFFER);
		return;
	}
	memset(win, 0, *len);
	win[j++] = 1;
	*len = j;
}

/* the test comes after the first write */
void bad_rec_guard__late__bn_rec_win(uint8_t *win, size_t *len, const bn_t k, size_t w) {
	int j = 0, l = bn_bits(k);
	memset(win, 0, l);
	if (*len < RLC_CEIL(l, w)) {
		*len = 0;
		RLC_THROW(ERR_NO_BUFFER);
		return;
	}
	win[j++] = 1;
	*len = j;
}

/* the refusal has no return: outside a TRY it falls through into the writes */
void bad_rec_guard__fallthrough__bn_rec_win(uint8_t *win, size_t *len, const bn_t k, size_t w) {
	int j = 0, l = bn_bits(k);
	if (*len < RLC_CEIL(l, w)) {
		*len = 0;
		RLC_THROW(ERR_NO_BUFFER);
	}
	win[j++] = 1;
	*len = j;
}
