/* Self-test miniatures for the C20 rules (parsed only). */
#include "relic.h"

/* ------------------------------------------------------------------ CT-PRIM */
void ok_prim__dv_copy_sec(dig_t *c, const dig_t *a, size_t digits, dig_t bit) {
	dig_t mask, t;
	mask = -bit;
	for (size_t i = 0; i < digits; i++) {
		t = (a[i] ^ c[i]) & mask;
		c[i] ^= t;
	}
}

void bad_ct_prim__branch__dv_copy_sec(dig_t *c, const dig_t *a, size_t digits, dig_t bit) {
	if (bit != 0) {
		for (size_t i = 0; i < digits; i++) {
			c[i] = a[i];
		}
	}
}

int ok_prim__util_cmp_sec(const void *a, const void *b, size_t size) {
	const uint8_t *_a = (const uint8_t *)a;
	const uint8_t *_b = (const uint8_t *)b;
	uint8_t result = 0;
	for (size_t i = 0; i < size; i++) {
		result |= _a[i] ^ _b[i];
	}
	return (result == 0 ? RLC_EQ : RLC_NE);
}

int bad_ct_prim__early__util_cmp_sec(const void *a, const void *b, size_t size) {
	const uint8_t *_a = (const uint8_t *)a;
	const uint8_t *_b = (const uint8_t *)b;
	for (size_t i = 0; i < size; i++) {
		if (_a[i] != _b[i]) {
			return RLC_NE;
		}
	}
	return RLC_EQ;
}

/* ------------------------------------------------------------------ CT-ALG */
void ok_alg__ep_mul_monty(ep_t r, const ep_t p, const bn_t k) {
	bn_t n, l;
	ep_t t[2];
	size_t bits;
	if (bn_is_zero(k) || ep_is_infty(p)) {
		ep_set_infty(r);
		return;
	}
	RLC_TRY {
		bn_new(n);
		bn_new(l);
		ep_curve_get_ord(n);
		bits = bn_bits(n);
		bn_mod(l, k, n);
		bn_add(l, l, n);
		ep_norm(t[0], p);
		ep_dbl(t[1], t[0]);
		for (int i = bits - 1; i >= 0; i--) {
			int j = bn_get_bit(l, i);
			dv_swap_sec(t[0]->x, t[1]->x, RLC_FP_DIGS, j ^ 1);
			ep_add(t[0], t[0], t[1]);
			ep_dbl(t[1], t[1]);
			dv_swap_sec(t[0]->x, t[1]->x, RLC_FP_DIGS, j ^ 1);
		}
		ep_norm(r, t[0]);
	} RLC_CATCH_ANY {
		RLC_THROW(ERR_CAUGHT);
	}
}

/* loop bound taken from the bit length of a derived secret */
void bad_ct_alg__bound__ep_mul_monty(ep_t r, const ep_t p, const bn_t k) {
	bn_t n, l;
	ep_t t[2];
	RLC_TRY {
		bn_new(n);
		bn_new(l);
		ep_curve_get_ord(n);
		bn_mod(l, k, n);
		bn_add(l, l, n);
		ep_norm(t[0], p);
		ep_dbl(t[1], t[0]);
		for (int i = bn_bits(l) - 2; i >= 0; i--) {
			int j = bn_get_bit(l, i);
			dv_swap_sec(t[0]->x, t[1]->x, RLC_FP_DIGS, j ^ 1);
			ep_add(t[0], t[0], t[1]);
			ep_dbl(t[1], t[1]);
			dv_swap_sec(t[0]->x, t[1]->x, RLC_FP_DIGS, j ^ 1);
		}
		ep_norm(r, t[0]);
	} RLC_CATCH_ANY {
		RLC_THROW(ERR_CAUGHT);
	}
}

/* addition skipped when the ladder bit is zero */
void bad_ct_alg__skip__ep_mul_monty(ep_t r, const ep_t p, const bn_t k) {
	ep_t t[2];
	ep_norm(t[0], p);
	ep_dbl(t[1], t[0]);
	for (int i = 255; i >= 0; i--) {
		if (bn_get_bit(k, i)) {
			ep_add(t[0], t[0], t[1]);
		}
		ep_dbl(t[1], t[1]);
	}
	ep_norm(r, t[0]);
}

/* direct table lookup instead of the masked scan */
void bad_ct_alg__index__ep_mul_lwreg(ep_t r, const ep_t p, const bn_t k) {
	int8_t reg[1 + RLC_CEIL(RLC_FP_BITS + 1, RLC_WIDTH - 1)];
	ep_t t[1 << (RLC_WIDTH - 2)];
	size_t l = 1 + RLC_CEIL(RLC_FP_BITS + 1, RLC_WIDTH - 1);
	int n;
	ep_tab(t, p, RLC_WIDTH);
	bn_rec_reg(reg, &l, k, RLC_FP_BITS, RLC_WIDTH);
	ep_set_infty(r);
	for (int i = l - 1; i >= 0; i--) {
		n = reg[i];
		ep_dbl(r, r);
		ep_add(r, r, t[n >> 1]);
	}
}

/* secret scalar handed to the NAF multiplication */
void bad_ct_alg__delegate__ep_mul_lwreg(ep_t r, const ep_t p, const bn_t k) {
	if (bn_bits(k) <= RLC_DIG) {
		ep_mul_lwnaf(r, p, k);
		return;
	}
	ep_mul_monty(r, p, k);
}

/* the sign of a copy / reduction of the scalar is as public as the sign of the scalar */
void ok_alg_sign__ep_mul_lwreg(ep_t r, const ep_t p, const bn_t k) {
	bn_t _k, n;
	bn_null(_k);
	bn_null(n);
	RLC_TRY {
		bn_new(_k);
		bn_new(n);
		ep_curve_get_ord(n);
		bn_abs(_k, k);
		ep_mul_monty(r, p, _k);
		if (bn_sign(_k) == RLC_NEG) {
			ep_neg(r, r);
		}
		if (bn_sign(k) == RLC_NEG) {
			ep_neg(r, r);
		}
	} RLC_CATCH_ANY {
		RLC_THROW(ERR_CAUGHT);
	} RLC_FINALLY {
		bn_free(_k);
		bn_free(n);
	}
}

/* the signs of the sub-scalars of a decomposition depend on the value of the scalar: branching on them leaks */
void bad_ct_alg__subscalar_sign__ep_mul_lwreg(ep_t r, const ep_t p, const bn_t k) {
	bn_t n, k0, k1;
	ep_t q;
	bn_null(n);
	bn_null(k0);
	bn_null(k1);
	ep_null(q);
	RLC_TRY {
		bn_new(n);
		bn_new(k0);
		bn_new(k1);
		ep_new(q);
		ep_curve_get_ord(n);
		bn_rec_glv(k0, k1, k, n, ep_curve_get_v1(), ep_curve_get_v2());
		ep_copy(q, p);
		if (bn_sign(k0) == RLC_NEG) {
			ep_neg(q, q);
		}
		ep_mul_monty(r, q, k0);
	} RLC_CATCH_ANY {
		RLC_THROW(ERR_CAUGHT);
	} RLC_FINALLY {
		bn_free(n);
		bn_free(k0);
		bn_free(k1);
		ep_free(q);
	}
}

/* the table entry is selected by masking its address: the copy reads from a secret-dependent address */
void bad_ct_alg__address__ep_mul_lwreg(ep_t r, const ep_t p, const bn_t k) {
	ep_t t[4];
	int8_t reg[RLC_FP_BITS + 1];
	size_t l = RLC_FP_BITS + 1;
	uintptr_t e;
	int j, n;
	for (j = 0; j < 4; j++) {
		ep_null(t[j]);
		ep_new(t[j]);
		ep_copy(t[j], p);
	}
	bn_rec_reg(reg, &l, k, RLC_FP_BITS, 3);
	n = reg[0];
	e = (uintptr_t)t[0];
	for (j = 1; j < 4; j++) {
		e = RLC_SEL(e, (uintptr_t)t[j], (uintptr_t)(j == n));
	}
	ep_copy(r, (const ep_st *)e);
}

/* the public early exit behind a static predicate helper whose name looks like a multiplication (behaviour-preserving) */
static int ep_mul_is_trivial_st(const ep_t p, const bn_t k) {
	return (bn_is_zero(k) || ep_is_infty(p));
}

void ok_alg_helper__ep_mul_monty(ep_t r, const ep_t p, const bn_t k) {
	bn_t n, l;
	ep_t t[2];
	size_t bits;
	if (ep_mul_is_trivial_st(p, k)) {
		ep_set_infty(r);
		return;
	}
	RLC_TRY {
		bn_new(n);
		bn_new(l);
		ep_curve_get_ord(n);
		bits = bn_bits(n);
		bn_mod(l, k, n);
		bn_add(l, l, n);
		ep_norm(t[0], p);
		ep_dbl(t[1], t[0]);
		for (int i = bits - 1; i >= 0; i--) {
			int j = bn_get_bit(l, i);
			dv_swap_sec(t[0]->x, t[1]->x, RLC_FP_DIGS, j ^ 1);
			ep_add(t[0], t[0], t[1]);
			ep_dbl(t[1], t[1]);
			dv_swap_sec(t[0]->x, t[1]->x, RLC_FP_DIGS, j ^ 1);
		}
		ep_norm(r, t[0]);
	} RLC_CATCH_ANY {
		RLC_THROW(ERR_CAUGHT);
	}
}
