/* Self-test miniatures for C18: look-alikes of ep_param_set evaluated against the primes of the real configuration. */
#include "relic.h"

#define GOOD_A "FFFFFFFF00000001000000000000000000000000FFFFFFFFFFFFFFFFFFFFFFFC"
#define GOOD_B "5AC635D8AA3A93E7B3EBBD55769886BC651D06B0CC53B0F63BCE3C3E27D2604B"
#define GOOD_X "6B17D1F2E12C4247F8BCE6E563A440F277037D812DEB33A0F4A13945D898C296"
#define GOOD_Y "4FE342E2FE1A7F9B8EE7EB4A7C0F9E162BCE33576B315ECECBB6406837BF51F5"
#define GOOD_R "FFFFFFFF00000000FFFFFFFFFFFFFFFFBCE6FAADA7179E84F3B9CAC2FC632551"
#define GOOD_H "1"
/* one hex digit of the generator's y mistyped */
#define BADY_Y "4FE342E2FE1A7F9B8EE7EB4A7C0F9E162BCE33576B315ECECBB6406837BF51F4"
/* the order of another curve (secp256k1) copied */
#define BADR_R "FFFFFFFFFFFFFFFFFFFFFFFFFFFFFFFEBAAEDCE6AF48A03BBFD25E8CD0364141"
/* wrong cofactor */
#define BADH_H "4"

#define ST_ASSIGN(A, B, X, Y, R, H)										\
	fp_param_set(NIST_256);													\
	RLC_GET(str, A, sizeof(A));												\
	fp_read_str(a, str, strlen(str), 16);									\
	RLC_GET(str, B, sizeof(B));												\
	fp_read_str(b, str, strlen(str), 16);									\
	RLC_GET(str, X, sizeof(X));												\
	fp_read_str(g->x, str, strlen(str), 16);								\
	RLC_GET(str, Y, sizeof(Y));												\
	fp_read_str(g->y, str, strlen(str), 16);								\
	RLC_GET(str, R, sizeof(R));												\
	bn_read_str(r, str, strlen(str), 16);									\
	RLC_GET(str, H, sizeof(H));												\
	bn_read_str(h, str, strlen(str), 16);

void ok_good__ep_param_set(int param) {
	char str[2 * RLC_FP_BYTES + 2];
	fp_t a, b; ep_t g; bn_t r, h;
	switch (param) {
		case 1:
			ST_ASSIGN(GOOD_A, GOOD_B, GOOD_X, GOOD_Y, GOOD_R, GOOD_H);
			break;
	}
}

void bad_param_generator__digit__ep_param_set(int param) {
	char str[2 * RLC_FP_BYTES + 2];
	fp_t a, b; ep_t g; bn_t r, h;
	switch (param) {
		case 1:
			ST_ASSIGN(GOOD_A, GOOD_B, GOOD_X, BADY_Y, GOOD_R, GOOD_H);
			break;
	}
}

void bad_param_order__copied__ep_param_set(int param) {
	char str[2 * RLC_FP_BYTES + 2];
	fp_t a, b; ep_t g; bn_t r, h;
	switch (param) {
		case 1:
			ST_ASSIGN(GOOD_A, GOOD_B, GOOD_X, GOOD_Y, BADR_R, GOOD_H);
			break;
	}
}

void bad_param_hasse__cofactor__ep_param_set(int param) {
	char str[2 * RLC_FP_BYTES + 2];
	fp_t a, b; ep_t g; bn_t r, h;
	switch (param) {
		case 1:
			ST_ASSIGN(GOOD_A, GOOD_B, GOOD_X, GOOD_Y, GOOD_R, BADH_H);
			break;
	}
}
