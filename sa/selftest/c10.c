/* Self-test miniatures for the C10 rules (parsed only). */
#include "relic.h"

void ok_a__fp2_exp_x(fp2_t c, const fp2_t a, const bn_t b) {
	fp2_t t;

	if (bn_is_zero(b)) {
		fp2_set_dig(c, 1);
		return;
	}
	fp2_null(t);
	fp2_new(t);
	fp2_copy(t, a);
	for (int i = bn_bits(b) - 2; i >= 0; i--) {
		fp2_sqr(t, t);
		if (bn_get_bit(b, i)) {
			fp2_mul(t, t, a);
		}
	}
	if (bn_sign(b) == RLC_NEG) {
		fp2_inv(c, t);
	} else {
		fp2_copy(c, t);
	}
	fp2_free(t);
}

/* delegation keeps the obligation with the sibling */
void ok_b__fp2_exp_y(fp2_t c, const fp2_t a, const bn_t b) {
	ok_a__fp2_exp_x(c, a, b);
}

/* the second exponent's sign is taken from the first */
void bad_exp_sib__second__fp2_exp_sim(fp2_t e, const fp2_t a, const bn_t b, const fp2_t c, const bn_t d) {
	bn_t _b, _d;
	bn_null(_b); bn_null(_d);
	bn_new(_b); bn_new(_d);
	bn_abs(_b, b);
	if (bn_sign(b) == RLC_NEG) {
		bn_neg(_b, _b);
	}
	bn_abs(_d, d);
	if (bn_sign(b) == RLC_NEG) {
		bn_neg(_d, _d);
	}
	fp2_mul(e, a, c);
	bn_free(_b); bn_free(_d);
}

void ok_c(fp2_t c, const fp2_t a, const fp2_t b) {
	fp_t t;
	fp_null(t);
	fp_new(t);
	fp_mul(t, a[0], b[0]);
	fp_mul(c[1], a[1], b[1]);
	fp_copy(c[0], t);
	fp_free(t);
}

/* the real part is stored before the imaginary part of the operand is read with it */
void bad_alias_rw__comp(fp2_t c, const fp2_t a, const fp2_t b) {
	fp_mul(c[0], a[0], b[0]);
	fp_mul(c[1], a[0], b[1]);
}

/* OUT-FULL: a fast path for base-field elements stores c[0] and returns; c[1], c[2] keep what the caller's object held */
void ok_full__inv(fp6_t c, const fp6_t a) {
	fp2_t t;
	fp2_null(t);
	fp2_new(t);
	fp2_sqr(t, a[0]);
	fp2_inv(t, t);
	fp2_mul(c[0], a[0], t);
	fp2_mul(c[1], a[1], t);
	fp2_mul(c[2], a[2], t);
	fp2_free(t);
}

void bad_out_full__fast_path(fp6_t c, const fp6_t a) {
	fp2_t t;
	if (fp2_is_zero(a[1]) && fp2_is_zero(a[2])) {
		fp2_inv(c[0], a[0]);
		return;
	}
	fp2_null(t);
	fp2_new(t);
	fp2_sqr(t, a[0]);
	fp2_inv(t, t);
	fp2_mul(c[0], a[0], t);
	fp2_mul(c[1], a[1], t);
	fp2_mul(c[2], a[2], t);
	fp2_free(t);
}

/* a counted loop of constant trip count writes its components on every path */
void ok_full__loop(fp6_t c, const fp6_t a, const fp6_t b) {
	for (int i = 0; i < 3; i++) {
		fp2_add(c[i], a[i], b[i]);
	}
}

void ok_full__loop2(fp12_t c, const fp12_t a, const fp12_t b) {
	for (int i = 0; i < 3; i++) {
		fp2_add(c[1][i], a[1][i], b[1][i]);
	}
	fp2_add(c[0][0], a[0][0], b[0][0]);
	fp2_add(c[0][1], a[0][1], b[0][1]);
	fp2_add(c[0][2], a[0][2], b[0][2]);
}
