/* Self-test miniatures for the C03 rules (parsed only). */
#include "relic.h"

void ok_norm__ep_mul_st(ep_t r, const ep_t p, const bn_t k) {
	ep_t t;
	bn_t n, m;
	int8_t naf[RLC_FP_BITS + 1];
	size_t l = RLC_FP_BITS + 1;
	if (bn_is_zero(k)) {
		ep_set_infty(r);
		return;
	}
	RLC_TRY {
		ep_curve_get_ord(n);
		bn_mod(m, k, n);
		bn_rec_naf(naf, &l, m, 2);
		ep_norm(t, p);
		ep_dbl(r, t);
		ep_add(r, r, t);
		ep_norm(r, r);
		ep_neg(t, r);
		fp_copy_sec(r->y, t->y, bn_sign(k) == RLC_NEG);
	} RLC_CATCH_ANY {
		RLC_THROW(ERR_CAUGHT);
	}
}

/* normalisation dropped on one branch */
void bad_sm_norm__branch__ep_mul_st(ep_t r, const ep_t p, const bn_t k) {
	ep_t t;
	if (bn_is_zero(k)) {
		ep_set_infty(r);
		return;
	}
	ep_norm(t, p);
	ep_dbl(r, t);
	if (bn_is_even(k)) {
		ep_norm(r, r);
	} else {
		ep_add(r, r, t);
	}
}

/* scalar not reduced before a recoding into a fixed-size array */
void bad_sm_red__unreduced__ep_mul_st(ep_t r, const ep_t p, const bn_t k) {
	int8_t naf[RLC_FP_BITS + 1];
	size_t l = RLC_FP_BITS + 1;
	bn_t m;
	bn_abs(m, k);
	bn_rec_naf(naf, &l, m, 2);
	ep_norm(r, p);
}

void ok_rbw(ep_t r, const ep_t p) {
	fp_t t;
	fp_null(t);
	fp_new(t);
	fp_inv(r->z, p->z);
	fp_sqr(t, r->z);
	fp_mul(r->x, p->x, t);
	fp_mul(t, t, r->z);
	fp_mul(r->y, p->y, t);
	fp_set_dig(r->z, 1);
	r->coord = BASIC;
	fp_free(t);
}

/* the output's own coordinates are scaled instead of the input's */
void bad_out_rbw__own(ep_t r, const ep_t p) {
	fp_t t;
	fp_null(t);
	fp_new(t);
	fp_inv(r->z, p->z);
	fp_sqr(t, r->z);
	fp_mul(r->x, r->x, t);
	fp_mul(t, t, r->z);
	fp_mul(r->y, p->y, t);
	fp_set_dig(r->z, 1);
	r->coord = BASIC;
	fp_free(t);
}

/* the sign of the second scalar is taken from the first */
void bad_sm_sign__second__ep_mul_sim_z(ep_t r, const ep_t p, const bn_t k, const ep_t q, const bn_t m) {
	ep_t t, u;
	ep_null(t); ep_null(u);
	ep_new(t); ep_new(u);
	ep_copy(t, p);
	if (bn_sign(k) == RLC_NEG) {
		ep_neg(t, t);
	}
	ep_copy(u, q);
	if (bn_sign(k) == RLC_NEG) {
		ep_neg(u, u);
	}
	ep_add(r, t, u);
	ep_norm(r, r);
	ep_free(t); ep_free(u);
}

/* the result is stored over the second operand before that operand's x is read */
void bad_alias_rw__second(ep_t r, const ep_t p, const ep_t q) {
	fp_add(r->x, p->x, p->z);
	fp_add(r->y, q->x, q->z);
	fp_mul(r->z, r->x, r->y);
	r->coord = p->coord;
}

void ok_alias_order(ep_t r, const ep_t p, const ep_t q) {
	fp_add(r->y, q->x, q->z);
	fp_add(r->x, p->x, p->z);
	fp_mul(r->z, r->x, r->y);
	r->coord = PROJC;
}
