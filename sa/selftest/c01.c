/* Self-test miniatures for the C01 rules (parsed only). */
#include "relic.h"
#include "relic_bn_low.h"

void ok_a(bn_t c, const bn_t a, const bn_t b) {
	dig_t carry;
	bn_grow(c, a->used);
	carry = bn_subn_low(c->dp, a->dp, b->dp, b->used);
	(void)carry;
	c->used = a->used;
	bn_trim(c);
}

/* the trim is skipped on the short path */
void bad_nf__skip(bn_t c, const bn_t a, const bn_t b) {
	bn_grow(c, a->used);
	bn_subn_low(c->dp, a->dp, b->dp, b->used);
	c->used = a->used;
	if (a->used == b->used) {
		return;
	}
	bn_trim(c);
}

/* digits cleared after the trim */
void bad_nf__after(bn_t c, const bn_t a, size_t bit) {
	bn_copy(c, a);
	bn_trim(c);
	c->dp[bit / RLC_DIG] &= ~((dig_t)1 << (bit % RLC_DIG));
}

void ok_b(bn_t c, const bn_t a) {
	bn_copy(c, a);
	if (!bn_is_zero(c)) {
		c->sign = a->sign ^ 1;
	}
}

void ok_c(bn_t c, const bn_t a, dig_t b) {
	c->sign = a->sign;
	bn_sub_dig(c, a, b);
}

/* sign of the minuend kept for a zero difference */
void bad_nf_sign__zero(bn_t c, const bn_t a, const bn_t b) {
	bn_sub(c, a, b);
	c->sign = a->sign;
}

/* operand normalised in place */
void bad_const_in__norm(bn_t c, const bn_t a) {
	bn_trim((bn_st *)a);
	bn_copy(c, a);
}

void ok_d(bn_t a, int d) {
	bn_grow(a, d + 1);
	if ((d + 1) > a->used) {
		for (int i = a->used; i <= d; i++) {
			a->dp[i] = 0;
		}
		a->used = d + 1;
	}
	a->dp[d] |= 1;
	bn_trim(a);
}

/* stale digits come into use */
void bad_grow_clear__stale(bn_t a, int d) {
	bn_grow(a, d + 1);
	a->dp[d] |= 1;
	if ((d + 1) > a->used) {
		a->used = d + 1;
	}
	bn_trim(a);
}

void ok_e(bn_t c, const bn_t a, const bn_t b) {
	int s = a->sign ^ b->sign;
	bn_t t;
	bn_null(t);
	bn_new(t);
	bn_mul(t, a, b);
	bn_copy(c, t);
	c->sign = s;
	bn_trim(c);
	bn_free(t);
}

/* the sign of an operand is read after the result was stored */
void bad_alias_rw__sign(bn_t c, const bn_t a, const bn_t b) {
	bn_t t;
	bn_null(t);
	bn_new(t);
	bn_mul(t, a, b);
	bn_copy(c, t);
	c->sign = a->sign ^ b->sign;
	bn_trim(c);
	bn_free(t);
}

/* GROW-CLEAR: the clearing loop stops one digit early */
void bad_grow_clear__short_loop(bn_t a, int d) {
	bn_grow(a, d + 1);
	if ((d + 1) > a->used) {
		for (int i = a->used; i < d; i++) {
			a->dp[i] = 0;
		}
		a->used = d + 1;
	}
	a->dp[d] |= 1;
	bn_trim(a);
}

void ok_grow_clear__full_loop(bn_t a, int d) {
	bn_grow(a, d + 1);
	if ((d + 1) > a->used) {
		for (int i = a->used; i <= d; i++) {
			a->dp[i] = 0;
		}
		a->used = d + 1;
	}
	a->dp[d] |= 1;
	bn_trim(a);
}
