/* Self-test miniatures for the C17 rules (parsed only). */
#include "relic.h"

void ok_a__ed_mul_x(ed_t r, const ed_t p, const bn_t k) {
	ed_t t;
	if (bn_is_zero(k) || ed_is_infty(p)) {
		ed_set_infty(r);
		return;
	}
	ed_null(t);
	ed_new(t);
	ed_copy(t, p);
	for (int i = bn_bits(k) - 2; i >= 0; i--) {
		ed_dbl(t, t);
		if (bn_get_bit(k, i)) {
			ed_add(t, t, p);
		}
	}
	ed_norm(r, t);
	if (bn_sign(k) == RLC_NEG) {
		ed_neg(r, r);
	}
	ed_free(t);
}

/* negative scalars multiply by |k| */
void bad_sm_sign__abs__ed_mul_y(ed_t r, const ed_t p, const bn_t k) {
	ed_t t;
	if (bn_is_zero(k) || ed_is_infty(p)) {
		ed_set_infty(r);
		return;
	}
	ed_null(t);
	ed_new(t);
	ed_copy(t, p);
	for (int i = bn_bits(k) - 2; i >= 0; i--) {
		ed_dbl(t, t);
		if (bn_get_bit(k, i)) {
			ed_add(t, t, p);
		}
	}
	ed_norm(r, t);
	ed_free(t);
}

/* the sign of the second scalar is taken from the first */
void bad_sm_sign__second__ed_mul_sim_z(ed_t r, const ed_t p, const bn_t k, const ed_t q, const bn_t m) {
	ed_t t, u;
	ed_null(t); ed_null(u);
	ed_new(t); ed_new(u);
	ed_copy(t, p);
	if (bn_sign(k) == RLC_NEG) {
		ed_neg(t, t);
	}
	ed_copy(u, q);
	if (bn_sign(k) == RLC_NEG) {
		ed_neg(u, u);
	}
	ed_add(r, t, u);
	ed_norm(r, r);
	ed_free(t); ed_free(u);
}

void ok_b(ed_t r, const ed_t p) {
	if (r != p) {
		ed_copy(r, p);
	}
	ed_neg(r, r);
}

/* the output's own coordinate is used where the input's was meant */
void bad_out_rbw__own(ed_t r, const ed_t p) {
	fp_neg(r->x, r->x);
	fp_copy(r->y, p->y);
	fp_copy(r->z, p->z);
	r->coord = p->coord;
}

/* the result is stored over the second operand before that operand's x is read */
void bad_alias_rw__second(ed_t r, const ed_t p, const ed_t q) {
	fp_add(r->x, p->x, p->z);
	fp_add(r->y, q->x, q->z);
	fp_mul(r->z, r->x, r->y);
	r->coord = p->coord;
}

void ok_alias_order(ed_t r, const ed_t p, const ed_t q) {
	fp_add(r->y, q->x, q->z);
	fp_add(r->x, p->x, p->z);
	fp_mul(r->z, r->x, r->y);
	r->coord = PROJC;
}
