/* Self-test miniatures for the C02 rules (parsed only). */
#include "relic.h"
#include "relic_fp_low.h"

void ok_a__fp_inv_basic(fp_t c, const fp_t a) {
	bn_t e;

	bn_null(e);
	if (fp_is_zero(a)) {
		RLC_THROW(ERR_NO_VALID);
		return;
	}
	RLC_TRY {
		bn_new(e);
		e->used = RLC_FP_DIGS;
		dv_copy(e->dp, fp_prime_get(), RLC_FP_DIGS);
		bn_sub_dig(e, e, 2);
		fp_exp(c, a, e);
	} RLC_CATCH_ANY {
		RLC_THROW(ERR_CAUGHT);
	} RLC_FINALLY {
		bn_free(e);
	}
}

/* zero is inverted to zero */
void bad_inv0__silent__fp_inv_binar(fp_t c, const fp_t a) {
	if (fp_is_zero(a)) {
		fp_zero(c);
		return;
	}
	fp_invm_low(c, a);
}

/* the test is there but nothing leaves */
void bad_inv0__fall__fp_inv_lower(fp_t c, const fp_t a) {
	if (fp_is_zero(a)) {
		fp_zero(c);
	}
	fp_invm_low(c, a);
}

void ok_b__fp_exp_basic(fp_t c, const fp_t a, const bn_t b) {
	fp_t r;

	if (bn_is_zero(b)) {
		fp_set_dig(c, 1);
		return;
	}
	fp_null(r);
	fp_new(r);
	fp_copy(r, a);
	for (int i = bn_bits(b) - 2; i >= 0; i--) {
		fp_sqr(r, r);
		if (bn_get_bit(b, i)) {
			fp_mul(r, r, a);
		}
	}
	if (bn_sign(b) == RLC_NEG) {
		fp_inv(c, r);
	} else {
		fp_copy(c, r);
	}
	fp_free(r);
}

/* negative exponents treated as positive */
void bad_exp_sib__nosign__fp_exp_slide(fp_t c, const fp_t a, const bn_t b) {
	fp_t r;

	if (bn_is_zero(b)) {
		fp_set_dig(c, 1);
		return;
	}
	fp_null(r);
	fp_new(r);
	fp_copy(r, a);
	for (int i = bn_bits(b) - 2; i >= 0; i--) {
		fp_sqr(r, r);
		if (bn_get_bit(b, i)) {
			fp_mul(r, r, a);
		}
	}
	fp_copy(c, r);
	fp_free(r);
}

/* the zero exponent is told apart but answered with the base */
void bad_exp_sib__zero__fp_exp_monty(fp_t c, const fp_t a, const bn_t b) {
	fp_t r;

	if (bn_is_zero(b)) {
		fp_copy(c, a);
		return;
	}
	fp_null(r);
	fp_new(r);
	fp_copy(r, a);
	for (int i = bn_bits(b) - 2; i >= 0; i--) {
		fp_sqr(r, r);
		if (bn_get_bit(b, i)) {
			fp_mul(r, r, a);
		}
	}
	if (bn_sign(b) == RLC_NEG) {
		fp_inv(c, r);
	} else {
		fp_copy(c, r);
	}
	fp_free(r);
}

int ok_c__fp_srt(fp_t c, const fp_t a) {
	bn_t e;
	fp_t t0, t1;
	int r = 0;

	if (fp_is_zero(a)) {
		fp_zero(c);
		return 1;
	}
	bn_null(e);
	fp_null(t0);
	fp_null(t1);
	bn_new(e);
	fp_new(t0);
	fp_new(t1);
	switch (fp_prime_get_mod8() % 4) {
		case 3:
			fp_exp(t0, a, e);
			fp_sqr(t1, t0);
			r = (fp_cmp(t1, a) == RLC_EQ);
			fp_copy(c, t0);
			break;
		default:
			r = fp_is_sqr(a);
			fp_exp(t0, a, e);
			fp_copy(c, t0);
			break;
	}
	bn_free(e);
	fp_free(t0);
	fp_free(t1);
	return r;
}

/* the comparison is with the candidate, not with its square */
int bad_srt_verdict__cand__fp_srt(fp_t c, const fp_t a) {
	bn_t e;
	fp_t t0, t1;
	int r = 0;

	if (fp_is_zero(a)) {
		fp_zero(c);
		return 1;
	}
	bn_null(e);
	fp_null(t0);
	fp_null(t1);
	bn_new(e);
	fp_new(t0);
	fp_new(t1);
	fp_exp(t0, a, e);
	fp_sqr(t1, t0);
	fp_exp(t1, a, e);
	r = (fp_cmp(t1, a) == RLC_EQ);
	fp_copy(c, t0);
	bn_free(e);
	fp_free(t0);
	fp_free(t1);
	return r;
}

/* one arm reports success unconditionally */
int bad_srt_verdict__arm__fp_srt(fp_t c, const fp_t a) {
	bn_t e;
	fp_t t0;
	int r = 0;

	bn_null(e);
	fp_null(t0);
	bn_new(e);
	fp_new(t0);
	switch (fp_prime_get_mod8() % 4) {
		case 3:
			fp_exp(t0, a, e);
			r = 1;
			fp_copy(c, t0);
			break;
		default:
			r = fp_is_sqr(a);
			fp_exp(t0, a, e);
			fp_copy(c, t0);
			break;
	}
	bn_free(e);
	fp_free(t0);
	return r;
}

void ok_d__fp_addm_low(dig_t *c, const dig_t *a, const dig_t *b) {
	dig_t carry = fp_addn_low(c, a, b);
	if (carry || (dv_cmp(c, fp_prime_get(), RLC_FP_DIGS) != RLC_LT)) {
		carry = fp_subn_low(c, c, fp_prime_get());
	}
}

/* only the carry is looked at */
void bad_canon__carry__fp_dblm_low(dig_t *c, const dig_t *a) {
	dig_t carry = fp_addn_low(c, a, a);
	if (carry) {
		carry = fp_subn_low(c, c, fp_prime_get());
	}
}

void ok_e__fp_rdcs_low(dig_t *c, const dig_t *a, const dig_t *m) {
	dv_copy(c, a, RLC_FP_DIGS);
	while (dv_cmp(c, m, RLC_FP_DIGS) != RLC_LT) {
		fp_subn_low(c, c, m);
	}
}

/* one subtraction too few: compared before the last addition */
void bad_canon__early__fp_rdcn_low(dig_t *c, dig_t *a) {
	const dig_t *m = fp_prime_get();
	if (dv_cmp(a, m, RLC_FP_DIGS) != RLC_LT) {
		fp_subn_low(a, a, m);
	}
	fp_addn_low(c, a, a + RLC_FP_DIGS);
}

/* scratch use of an input */
void bad_const_in__scratch(fp_t c, const fp_t a) {
	fp_dbl((dig_t *)a, a);
	fp_copy(c, a);
}

void ok_f__add_dig(fp_t c, const fp_t a, dig_t b) {
	dig_t carry;
	carry = fp_add1_low(c, a, b);
	if (carry || dv_cmp(c, fp_prime_get(), RLC_FP_DIGS) != RLC_LT) {
		carry = fp_subn_low(c, c, fp_prime_get());
	}
}

/* the carry-out is dropped */
void bad_canon_carry__drop(fp_t c, const fp_t a, dig_t b) {
	fp_add1_low(c, a, b);
	if (dv_cmp(c, fp_prime_get(), RLC_FP_DIGS) != RLC_LT) {
		fp_subn_low(c, c, fp_prime_get());
	}
}

/* accumulates in the output and keeps reading the base */
void bad_alias_rw__acc(fp_t c, const fp_t a, const bn_t b) {
	fp_copy(c, a);
	for (int i = bn_bits(b) - 2; i >= 0; i--) {
		fp_sqr(c, c);
		if (bn_get_bit(b, i)) {
			fp_mul(c, c, a);
		}
	}
}

/* the zero test and the sign test held in locals */
void ok_g__fp_inv_lower(fp_t c, const fp_t a) {
	int zero = fp_is_zero(a);
	if (zero) {
		RLC_THROW(ERR_NO_VALID);
		return;
	}
	fp_invm_low(c, a);
}

void ok_h__fp_exp_basic(fp_t c, const fp_t a, const bn_t b) {
	fp_t r;
	int neg;

	if (bn_is_zero(b)) {
		fp_set_dig(c, 1);
		return;
	}
	fp_null(r);
	fp_new(r);
	fp_copy(r, a);
	for (int i = bn_bits(b) - 2; i >= 0; i--) {
		fp_sqr(r, r);
		if (bn_get_bit(b, i)) {
			fp_mul(r, r, a);
		}
	}
	neg = (bn_sign(b) == RLC_NEG);
	if (neg) {
		fp_inv(c, r);
	} else {
		fp_copy(c, r);
	}
	fp_free(r);
}

/* the zero test behind a static predicate helper (behaviour-preserving) */
static int st_inv_none(const fp_t a) {
	return fp_is_zero(a);
}

void ok_helper__fp_inv_exgcd(fp_t c, const fp_t a) {
	if (st_inv_none(a)) {
		RLC_THROW(ERR_NO_VALID);
		return;
	}
	fp_invm_low(c, a);
}
