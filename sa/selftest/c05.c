/* Self-test miniatures for the C05 rules (parsed only). */
#include "relic.h"

int ok_full__cp_st_ver(const bn_t r, const bn_t s, const uint8_t *msg, size_t len, const ec_t q) {
	bn_t n, v;
	int result = 0;
	bn_null(n);
	bn_null(v);
	RLC_TRY {
		bn_new(n);
		bn_new(v);
		ec_curve_get_ord(n);
		if (bn_sign(r) == RLC_POS && !bn_is_zero(r) && ec_on_curve(q)) {
			if (bn_cmp(r, n) == RLC_LT) {
				bn_read_bin(v, msg, len);
				bn_mod(v, v, n);
				result = (bn_cmp(v, r) == RLC_EQ);
			}
		}
	} RLC_CATCH_ANY {
		RLC_THROW(ERR_CAUGHT);
	} RLC_FINALLY {
		bn_free(n);
		bn_free(v);
	}
	return result;
}

/* range test applied to the wrong component (copy/paste) */
int bad_ver_guard__wrong_operand__cp_st_ver(const bn_t r, const bn_t s, const uint8_t *msg, size_t len, const ec_t q) {
	bn_t n, v;
	int result = 0;
	bn_null(n);
	bn_null(v);
	RLC_TRY {
		bn_new(n);
		bn_new(v);
		ec_curve_get_ord(n);
		if (bn_sign(r) == RLC_POS && !bn_is_zero(r) && ec_on_curve(q)) {
			if (bn_cmp(s, n) == RLC_LT) {
				bn_read_bin(v, msg, len);
				bn_mod(v, v, n);
				result = (bn_cmp(v, r) == RLC_EQ);
			}
		}
	} RLC_CATCH_ANY {
		RLC_THROW(ERR_CAUGHT);
	} RLC_FINALLY {
		bn_free(n);
		bn_free(v);
	}
	return result;
}

/* on-curve test combined with || : an off-curve key with a well-formed r is accepted */
int bad_ver_guard__or__cp_st_ver(const bn_t r, const bn_t s, const uint8_t *msg, size_t len, const ec_t q) {
	bn_t n, v;
	int result = 0;
	bn_null(n);
	bn_null(v);
	RLC_TRY {
		bn_new(n);
		bn_new(v);
		ec_curve_get_ord(n);
		if ((bn_sign(r) == RLC_POS && !bn_is_zero(r) && bn_cmp(r, n) == RLC_LT) || ec_on_curve(q)) {
			bn_read_bin(v, msg, len);
			bn_mod(v, v, n);
			result = (bn_cmp(v, r) == RLC_EQ);
		}
	} RLC_CATCH_ANY {
		RLC_THROW(ERR_CAUGHT);
	} RLC_FINALLY {
		bn_free(n);
		bn_free(v);
	}
	return result;
}

/* the catch block turns an exception into RLC_ERR, which is 1 = accept */
int bad_ver_catch__err_is_accept__cp_st_ver(const bn_t r, const bn_t s, const uint8_t *msg, size_t len, const ec_t q) {
	bn_t n, v;
	int result = 0;
	bn_null(n);
	bn_null(v);
	RLC_TRY {
		bn_new(n);
		bn_new(v);
		ec_curve_get_ord(n);
		if (bn_sign(r) == RLC_POS && !bn_is_zero(r) && ec_on_curve(q)) {
			if (bn_cmp(r, n) == RLC_LT) {
				bn_read_bin(v, msg, len);
				bn_mod(v, v, n);
				result = (bn_cmp(v, r) == RLC_EQ);
			}
		}
	} RLC_CATCH_ANY {
		result = RLC_ERR;
	} RLC_FINALLY {
		bn_free(n);
		bn_free(v);
	}
	return result;
}

/* a rejection by an earlier ring member is overwritten by a later one */
int bad_ver_agg__overwrite__cp_st_ver(const bn_t r, const bn_t s, const uint8_t *msg, size_t len, const ec_t q) {
	int flag = 0;
	if (bn_sign(r) == RLC_POS && !bn_is_zero(r) && ec_on_curve(q)) {
		bn_t n;
		bn_null(n);
		bn_new(n);
		ec_curve_get_ord(n);
		if (bn_cmp(r, n) == RLC_LT) {
			flag = 1;
			for (size_t i = 0; i < len; i++) {
				flag = cp_ecdsa_ver(r, s, msg + i, 1, 0, q);
			}
		}
	}
	return flag;
}

/* padding verdict thrown away */
int bad_status_use__ignored(bn_t m, size_t *p_len, size_t m_len, size_t k_len) {
	cp_ecdsa_ver(m, m, NULL, 0, 0, NULL);
	return RLC_OK;
}

int ok_status__used(const bn_t r, const bn_t s, const uint8_t *msg, size_t len, const ec_t q) {
	int x = cp_ecdsa_ver(r, s, msg, len, 0, q);
	if (cp_ecdsa_ver(r, s, msg, len, 1, q) != 1) {
		return 0;
	}
	return x;
}

/* the integer decoded from the signature is range-checked before it is overwritten by the exponentiation */
int ok_dec__cp_sd_ver(const uint8_t *sig, size_t sig_len, const uint8_t *msg, size_t len, const bn_t n) {
	bn_t eb, m;
	int result = 0;
	bn_null(eb);
	bn_null(m);
	RLC_TRY {
		bn_new(eb);
		bn_new(m);
		bn_read_bin(eb, sig, sig_len);
		if (bn_cmp(eb, n) != RLC_LT) {
			RLC_THROW(ERR_NO_VALID);
		}
		bn_mxp_dig(eb, eb, 3, n);
		bn_read_bin(m, msg, len);
		result = (bn_cmp(eb, m) == RLC_EQ);
	} RLC_CATCH_ANY {
		result = 0;
	} RLC_FINALLY {
		bn_free(eb);
		bn_free(m);
	}
	return result;
}

/* the range test is applied after the exponentiation has reduced the value: sig + n passes */
int bad_ver_guard__after_reduction__cp_sd_ver(const uint8_t *sig, size_t sig_len, const uint8_t *msg, size_t len, const bn_t n) {
	bn_t eb, m;
	int result = 0;
	bn_null(eb);
	bn_null(m);
	RLC_TRY {
		bn_new(eb);
		bn_new(m);
		bn_read_bin(eb, sig, sig_len);
		bn_mxp_dig(eb, eb, 3, n);
		if (bn_cmp(eb, n) != RLC_LT) {
			RLC_THROW(ERR_NO_VALID);
		}
		bn_read_bin(m, msg, len);
		result = (bn_cmp(eb, m) == RLC_EQ);
	} RLC_CATCH_ANY {
		result = 0;
	} RLC_FINALLY {
		bn_free(eb);
		bn_free(m);
	}
	return result;
}

/* ------------------------------------------------------------------ PSS-BITS / PSS-EMLEN */
#define ST_SIG_FIN 1
#define ST_VER 2
#define RSA_SIG_FIN 6

/* the signer clears from bit m_len - 1, the verifier tests and clears from there as well */
int ok_pss__pad_pkcs2(bn_t m, size_t *p_len, size_t m_len, size_t k_len, int operation) {
	int r = 1;
	if (operation == ST_SIG_FIN) {
		for (int i = m_len - 1; i < 8 * k_len; i++) {
			bn_set_bit(m, i, 0);
		}
	} else {
		for (int i = m_len - 1; i < 8 * k_len; i++) {
			if (bn_get_bit(m, i) != 0) {
				r = 0;
			}
		}
		for (int i = m_len - 1; i < 8 * k_len; i++) {
			bn_set_bit(m, i - 264, 0);
		}
	}
	return r ? RLC_OK : RLC_ERR;
}

/* the verifier starts one bit too high: the bit the standard requires to be zero is never tested */
int bad_pss_bits__late__pad_pkcs2(bn_t m, size_t *p_len, size_t m_len, size_t k_len, int operation) {
	int r = 1;
	if (operation == ST_SIG_FIN) {
		for (int i = m_len - 1; i < 8 * k_len; i++) {
			bn_set_bit(m, i, 0);
		}
	} else {
		for (int i = m_len; i < 8 * k_len; i++) {
			if (bn_get_bit(m, i) != 0) {
				r = 0;
			}
		}
		for (int i = m_len - 1; i < 8 * k_len; i++) {
			bn_set_bit(m, i - 264, 0);
		}
	}
	return r ? RLC_OK : RLC_ERR;
}

int ok_emlen__cp_rsa_sig(bn_t eb, size_t *sig_len, const bn_t n) {
	size_t size, pad_len = 32;
	size = bn_bits(n) - 1;
	size = (size / 8) + (size % 8 > 0);
	return ok_pss__pad_pkcs2(eb, &pad_len, bn_bits(n), size, RSA_SIG_FIN);
}

/* written differently, the same function of the modulus length */
int ok_emlen__cp_rsa_ver(bn_t eb, size_t sig_len, const bn_t n) {
	size_t size, pad_len = 32;
	size = bn_bits(n) - 1;
	if (size % 8 == 0) {
		size = size / 8;
	} else {
		size = bn_size_bin(n);
	}
	return ok_pss__pad_pkcs2(eb, &pad_len, bn_bits(n), size, ST_VER);
}

/* one byte short when the modulus length is 1 mod 8 */
int bad_pss_emlen__short__cp_rsa_ver(bn_t eb, size_t sig_len, const bn_t n) {
	size_t size, pad_len = 32;
	size = bn_bits(n) - 1;
	if (size % 8 == 0) {
		size = size / 8 - 1;
	} else {
		size = bn_size_bin(n);
	}
	return ok_pss__pad_pkcs2(eb, &pad_len, bn_bits(n), size, ST_VER);
}

/* ------------------------------------------------------------------ TRUNC */
int ok_trunc__cp_ecdsa_sig(bn_t r, bn_t s, const uint8_t *msg, size_t len, const bn_t d) {
	bn_t n, e;
	bn_null(n);
	bn_null(e);
	bn_new(n);
	bn_new(e);
	ec_curve_get_ord(n);
	if (8 * len > bn_bits(n)) {
		len = (bn_bits(n) + 7) / 8;
		bn_read_bin(e, msg, len);
		bn_rsh(e, e, 8 * len - bn_bits(n));
	} else {
		bn_read_bin(e, msg, len);
	}
	bn_mul(s, d, r);
	bn_add(s, s, e);
	bn_mod(s, s, n);
	return RLC_OK;
}

/* the shift follows the length of the decoded value: digests starting with zero bits keep too many bits */
int bad_trunc__value__cp_ecdsa_sig(bn_t r, bn_t s, const uint8_t *msg, size_t len, const bn_t d) {
	bn_t n, e;
	bn_null(n);
	bn_null(e);
	bn_new(n);
	bn_new(e);
	ec_curve_get_ord(n);
	bn_read_bin(e, msg, len);
	if (bn_bits(e) > bn_bits(n)) {
		bn_rsh(e, e, bn_bits(e) - bn_bits(n));
	}
	bn_mul(s, d, r);
	bn_add(s, s, e);
	bn_mod(s, s, n);
	return RLC_OK;
}

/* whole bytes only: for orders whose length is not a multiple of 8 too few bits are discarded */
int bad_trunc__bytes__cp_ecdsa_sig(bn_t r, bn_t s, const uint8_t *msg, size_t len, const bn_t d) {
	bn_t n, e;
	bn_null(n);
	bn_null(e);
	bn_new(n);
	bn_new(e);
	ec_curve_get_ord(n);
	if (8 * len > bn_bits(n)) {
		len = (bn_bits(n) + 7) / 8;
		bn_read_bin(e, msg, len);
		bn_rsh(e, e, 8 * (len - bn_bits(n) / 8));
	} else {
		bn_read_bin(e, msg, len);
	}
	bn_mul(s, d, r);
	bn_add(s, s, e);
	bn_mod(s, s, n);
	return RLC_OK;
}

/* the truncation is gone */
int bad_trunc__none__cp_ecdsa_sig(bn_t r, bn_t s, const uint8_t *msg, size_t len, const bn_t d) {
	bn_t n, e;
	bn_null(n);
	bn_null(e);
	bn_new(n);
	bn_new(e);
	ec_curve_get_ord(n);
	bn_read_bin(e, msg, len);
	bn_mul(s, d, r);
	bn_add(s, s, e);
	bn_mod(s, s, n);
	return RLC_OK;
}

/* TRUNC-SIB: the verifier reads one byte less than the signer before the same shift */
int ok_truncsib__cp_ecss_sig(bn_t e, bn_t s, const uint8_t *hash, size_t len, const bn_t d) {
	bn_t n;
	bn_null(n);
	bn_new(n);
	ec_curve_get_ord(n);
	if (8 * RLC_MD_LEN > bn_bits(n)) {
		len = RLC_CEIL(bn_bits(n), 8);
		bn_read_bin(e, hash, len);
		bn_rsh(e, e, 8 * RLC_MD_LEN - bn_bits(n));
	} else {
		bn_read_bin(e, hash, RLC_MD_LEN);
	}
	bn_mod(e, e, n);
	return RLC_OK;
}

int bad_trunc_sib__shorter__cp_ecss_ver(bn_t e, bn_t s, const uint8_t *hash, size_t len, const ec_t q) {
	bn_t n, ev;
	bn_null(n);
	bn_null(ev);
	bn_new(n);
	bn_new(ev);
	ec_curve_get_ord(n);
	if (8 * RLC_MD_LEN > bn_bits(n)) {
		len = bn_bits(n) / 8;
		bn_read_bin(ev, hash, len);
		bn_rsh(ev, ev, 8 * RLC_MD_LEN - bn_bits(n));
	} else {
		bn_read_bin(ev, hash, RLC_MD_LEN);
	}
	bn_mod(ev, ev, n);
	return bn_cmp(ev, e) == RLC_EQ;
}

/* behaviour-preserving forms (round-4 robustness batches): the guards held in a flag set inside nested ifs, and in a
 * static predicate helper */
static int st_in_range(const bn_t x, const bn_t n) {
	return (bn_sign(x) == RLC_POS && bn_cmp(x, n) == RLC_LT);
}

int ok_flag__cp_st_ver(const bn_t r, const bn_t s, const uint8_t *msg, size_t len, const ec_t q) {
	bn_t n, v;
	int result = 0;
	bn_null(n);
	bn_null(v);
	RLC_TRY {
		bn_new(n);
		bn_new(v);
		ec_curve_get_ord(n);
		int wf = 0;
		if (bn_sign(r) == RLC_POS) {
			if (!bn_is_zero(r)) {
				wf = (ec_on_curve(q) && !ec_is_infty(q));
			}
		}
		if (wf) {
			if (bn_cmp(r, n) == RLC_LT) {
				bn_read_bin(v, msg, len);
				bn_mod(v, v, n);
				result = (bn_cmp(v, r) == RLC_EQ);
			}
		}
	} RLC_CATCH_ANY {
		RLC_THROW(ERR_CAUGHT);
	} RLC_FINALLY {
		bn_free(n);
		bn_free(v);
	}
	return result;
}

int ok_helper__cp_st_ver(const bn_t r, const bn_t s, const uint8_t *msg, size_t len, const ec_t q) {
	bn_t n, v;
	int result = 0;
	bn_null(n);
	bn_null(v);
	RLC_TRY {
		bn_new(n);
		bn_new(v);
		ec_curve_get_ord(n);
		int one = 0;
		if (!bn_is_zero(r) && ec_on_curve(q)) {
			one = 1;
		}
		if (one && st_in_range(r, n)) {
			bn_read_bin(v, msg, len);
			bn_mod(v, v, n);
			result = (bn_cmp(v, r) == RLC_EQ);
		}
	} RLC_CATCH_ANY {
		RLC_THROW(ERR_CAUGHT);
	} RLC_FINALLY {
		bn_free(n);
		bn_free(v);
	}
	return result;
}

/* the flag is raised on a path on which the sign was not tested */
int bad_ver_guard__flag__cp_st_ver(const bn_t r, const bn_t s, const uint8_t *msg, size_t len, const ec_t q) {
	bn_t n, v;
	int result = 0;
	bn_null(n);
	bn_null(v);
	RLC_TRY {
		bn_new(n);
		bn_new(v);
		ec_curve_get_ord(n);
		int wf = 0;
		if (bn_sign(r) == RLC_POS) {
			if (!bn_is_zero(r)) {
				wf = (ec_on_curve(q) && !ec_is_infty(q));
			}
		} else {
			wf = ec_on_curve(q);
		}
		if (wf) {
			if (bn_cmp(r, n) == RLC_LT) {
				bn_read_bin(v, msg, len);
				bn_mod(v, v, n);
				result = (bn_cmp(v, r) == RLC_EQ);
			}
		}
	} RLC_CATCH_ANY {
		RLC_THROW(ERR_CAUGHT);
	} RLC_FINALLY {
		bn_free(n);
		bn_free(v);
	}
	return result;
}
