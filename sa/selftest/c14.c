/* Self-test miniatures for the C14 rules (parsed only). */
#include <string.h>
#include <stdint.h>
#include <stdlib.h>
#include "relic.h"

/* ------------------------------------------------------------------ TABLE-STD */
static const uint32_t ok_rcon_tab[10] = {
	0x01000000, 0x02000000, 0x04000000, 0x08000000, 0x10000000,
	0x20000000, 0x40000000, 0x80000000, 0x1B000000, 0x36000000,
};
/* 0x1B mistyped as 0x1D: only 256-bit... only keys needing the 9th round constant see it */
static const uint32_t bad_table_std__rcon_tab[10] = {
	0x01000000, 0x02000000, 0x04000000, 0x08000000, 0x10000000,
	0x20000000, 0x40000000, 0x80000000, 0x1D000000, 0x36000000,
};
static const uint32_t ok_H256_tab[8] = {
	0x6A09E667, 0xBB67AE85, 0x3C6EF372, 0xA54FF53A, 0x510E527F, 0x9B05688C, 0x1F83D9AB, 0x5BE0CD19
};
static uint32_t ok_H384_tab[16] = {
	0xCBBB9D5D, 0xC1059ED8, 0x629A292A, 0x367CD507, 0x9159015A, 0x3070DD17, 0x152FECD8, 0xF70E5939,
	0x67332667, 0xFFC00B31, 0x8EB44A87, 0x68581511, 0xDB0C2E0D, 0x64F98FA7, 0x47B5481D, 0xBEFA4FA4
};
static uint32_t bad_table_std__H224_tab[8] = {
	0xC1059ED8, 0x367CD507, 0x3070DD17, 0xF70E5939, 0xFFC00B31, 0x68581511, 0x64F98FA7, 0xBEFA4FA5
};

uint32_t st14_use(int i) {
	return ok_rcon_tab[i] ^ bad_table_std__rcon_tab[i] ^ ok_H256_tab[i & 7] ^ ok_H384_tab[i & 15] ^ bad_table_std__H224_tab[i & 7];
}

/* ------------------------------------------------------------------ LEN-NARROW */
int st14_input(void *ctx, const uint8_t *msg, unsigned int length);
int st14_pad(void *c, uint8_t *in, int octets, uint8_t *out);

void bad_len_narrow__map(uint8_t *hash, const uint8_t *msg, size_t len) {
	if (st14_input(hash, msg, len) != 0) {
		RLC_THROW(ERR_NO_VALID);
	}
}

int ok_narrow_bounded(uint8_t *out, const uint8_t *in, size_t in_len) {
	if (in_len > (size_t)0x7FFFFFFF - 16) {
		return RLC_ERR;
	}
	return st14_pad(out, (uint8_t *)in, in_len, out) <= 0 ? RLC_ERR : RLC_OK;
}

int st14_input_wide(void *ctx, const uint8_t *msg, size_t length);
void ok_narrow_wide(uint8_t *hash, const uint8_t *msg, size_t len) {
	st14_input_wide(hash, msg, len);
}

/* ------------------------------------------------------------------ LEN-FIELD, PAD-THRESH, LEN-CARRY */
typedef struct {
	uint32_t Intermediate_Hash[8];
	uint32_t Length_High;
	uint32_t Length_Low;
	int_least16_t Message_Block_Index;
	uint8_t Message_Block[64];
	int Computed;
	int Corrupted;
} st14_ctx;

void st14_process(st14_ctx *context);

void ok_pad_message(st14_ctx *context, uint8_t Pad_Byte) {
	if (context->Message_Block_Index >= (64 - 8)) {
		context->Message_Block[context->Message_Block_Index++] = Pad_Byte;
		while (context->Message_Block_Index < 64)
			context->Message_Block[context->Message_Block_Index++] = 0;
		st14_process(context);
	} else
		context->Message_Block[context->Message_Block_Index++] = Pad_Byte;
	while (context->Message_Block_Index < (64 - 8))
		context->Message_Block[context->Message_Block_Index++] = 0;
	context->Message_Block[56] = (uint8_t)(context->Length_High >> 24);
	context->Message_Block[57] = (uint8_t)(context->Length_High >> 16);
	context->Message_Block[58] = (uint8_t)(context->Length_High >> 8);
	context->Message_Block[59] = (uint8_t)(context->Length_High);
	context->Message_Block[60] = (uint8_t)(context->Length_Low >> 24);
	context->Message_Block[61] = (uint8_t)(context->Length_Low >> 16);
	context->Message_Block[62] = (uint8_t)(context->Length_Low >> 8);
	context->Message_Block[63] = (uint8_t)(context->Length_Low);
	st14_process(context);
}

/* the second octet of the high word repeats the shift of the third: invisible below 2^29 bytes */
void bad_len_field__pad_message(st14_ctx *context, uint8_t Pad_Byte) {
	if (context->Message_Block_Index >= (64 - 8)) {
		context->Message_Block[context->Message_Block_Index++] = Pad_Byte;
		while (context->Message_Block_Index < 64)
			context->Message_Block[context->Message_Block_Index++] = 0;
		st14_process(context);
	} else
		context->Message_Block[context->Message_Block_Index++] = Pad_Byte;
	while (context->Message_Block_Index < (64 - 8))
		context->Message_Block[context->Message_Block_Index++] = 0;
	context->Message_Block[56] = (uint8_t)(context->Length_High >> 24);
	context->Message_Block[57] = (uint8_t)(context->Length_High >> 8);
	context->Message_Block[58] = (uint8_t)(context->Length_High >> 8);
	context->Message_Block[59] = (uint8_t)(context->Length_High);
	context->Message_Block[60] = (uint8_t)(context->Length_Low >> 24);
	context->Message_Block[61] = (uint8_t)(context->Length_Low >> 16);
	context->Message_Block[62] = (uint8_t)(context->Length_Low >> 8);
	context->Message_Block[63] = (uint8_t)(context->Length_Low);
	st14_process(context);
}

/* `>` for `>=`: a message ending at octet 56 of its block loses its padding octet */
void bad_pad_thresh__pad_message(st14_ctx *context, uint8_t Pad_Byte) {
	if (context->Message_Block_Index > (64 - 8)) {
		context->Message_Block[context->Message_Block_Index++] = Pad_Byte;
		while (context->Message_Block_Index < 64)
			context->Message_Block[context->Message_Block_Index++] = 0;
		st14_process(context);
	} else
		context->Message_Block[context->Message_Block_Index++] = Pad_Byte;
	while (context->Message_Block_Index < (64 - 8))
		context->Message_Block[context->Message_Block_Index++] = 0;
	context->Message_Block[56] = (uint8_t)(context->Length_High >> 24);
	context->Message_Block[57] = (uint8_t)(context->Length_High >> 16);
	context->Message_Block[58] = (uint8_t)(context->Length_High >> 8);
	context->Message_Block[59] = (uint8_t)(context->Length_High);
	context->Message_Block[60] = (uint8_t)(context->Length_Low >> 24);
	context->Message_Block[61] = (uint8_t)(context->Length_Low >> 16);
	context->Message_Block[62] = (uint8_t)(context->Length_Low >> 8);
	context->Message_Block[63] = (uint8_t)(context->Length_Low);
	st14_process(context);
}

#define ST14_ADD(context, length) \
	(addTemp = (context)->Length_Low, (context)->Corrupted = \
	(((context)->Length_Low += (length)) < addTemp) && \
	(++(context)->Length_High == 0) ? 1 : 0)

int ok_carry_input(st14_ctx *context, const uint8_t *m, size_t length) {
	while (length-- && !context->Corrupted) {
		uint32_t addTemp;
		context->Message_Block[context->Message_Block_Index++] = *m;
		if (!ST14_ADD(context, 8) && context->Message_Block_Index == 64)
			st14_process(context);
		m++;
	}
	return 0;
}

/* the high word is only cleared, never advanced: digests wrong from 2^29 bytes on */
int bad_len_carry__input(st14_ctx *context, const uint8_t *m, size_t length) {
	while (length-- && !context->Corrupted) {
		uint32_t addTemp;
		context->Message_Block[context->Message_Block_Index++] = *m;
		addTemp = context->Length_Low;
		context->Length_Low += 8;
		context->Corrupted = (context->Length_Low < addTemp) && (context->Length_High == 0xFFFFFFFF);
		if (context->Corrupted) {
			++context->Length_High;
		}
		if (context->Message_Block_Index == 64)
			st14_process(context);
		m++;
	}
	return 0;
}

/* ------------------------------------------------------------------ PKCS7-REJECT */
typedef struct { int mode; uint8_t IV[16]; } st14_cipher;
void st14_decrypt(const uint8_t *in, uint8_t *out);

int ok_pad_decrypt(st14_cipher *cipher, uint8_t *input, int inputOctets, uint8_t *outBuffer) {
	int i, numBlocks, padLen;
	uint8_t block[16];
	if (inputOctets <= 0 || inputOctets % 16 != 0) {
		return -5;
	}
	numBlocks = inputOctets / 16;
	for (i = numBlocks - 1; i > 0; i--) {
		st14_decrypt(input, outBuffer);
		input += 16;
		outBuffer += 16;
	}
	st14_decrypt(input, block);
	padLen = block[15];
	if (padLen <= 0 || padLen > 16) {
		return -5;
	}
	for (i = 16 - padLen; i < 16; i++) {
		if (block[i] != padLen) {
			return -5;
		}
	}
	memcpy(outBuffer, block, 16 - padLen);
	return 16 * numBlocks - padLen;
}

/* a zero pad octet is let through: a 16-octet "plaintext" block is released from an unpadded message */
int bad_pkcs7_reject__pad_decrypt(st14_cipher *cipher, uint8_t *input, int inputOctets, uint8_t *outBuffer) {
	int i, numBlocks, padLen;
	uint8_t block[16];
	if (inputOctets <= 0 || inputOctets % 16 != 0) {
		return -5;
	}
	numBlocks = inputOctets / 16;
	st14_decrypt(input, block);
	padLen = block[15];
	if (padLen > 16) {
		return -5;
	}
	for (i = 16 - padLen; i < 16; i++) {
		if (block[i] != padLen) {
			return -5;
		}
	}
	memcpy(outBuffer, block, 16 - padLen);
	return 16 * numBlocks - padLen;
}

/* only the last octet is looked at */
int bad_pkcs7_reject__scan_pad_decrypt(st14_cipher *cipher, uint8_t *input, int inputOctets, uint8_t *outBuffer) {
	int numBlocks, padLen;
	uint8_t block[16];
	if (inputOctets <= 0 || inputOctets % 16 != 0) {
		return -5;
	}
	numBlocks = inputOctets / 16;
	st14_decrypt(input, block);
	padLen = block[15];
	if (padLen <= 0 || padLen > 16) {
		return -5;
	}
	memcpy(outBuffer, block, 16 - padLen);
	return 16 * numBlocks - padLen;
}

/* ------------------------------------------------------------------ HMAC-KEY */
void ok_md_hmac(uint8_t *mac, const uint8_t *in, size_t in_len, const uint8_t *key, size_t key_len) {
	uint8_t opad[64 + RLC_MD_LEN];
	uint8_t *ipad = RLC_ALLOCA(uint8_t, 64 + in_len);
	uint8_t _key[64];
	if (ipad == NULL) {
		RLC_THROW(ERR_NO_MEMORY);
		return;
	}
	if (key_len > 64) {
		md_map(_key, key, key_len);
		key = _key;
		key_len = RLC_MD_LEN;
	}
	if (key_len <= 64) {
		memcpy(_key, key, key_len);
		memset(_key + key_len, 0, 64 - key_len);
		key = _key;
	}
	for (int i = 0; i < 64; i++) {
		opad[i] = 0x5C ^ key[i];
		ipad[i] = 0x36 ^ key[i];
	}
	memcpy(ipad + 64, in, in_len);
	md_map(opad + 64, ipad, 64 + in_len);
	md_map(mac, opad, 64 + RLC_MD_LEN);
	RLC_FREE(ipad);
}

/* long keys are cut instead of hashed */
void bad_hmac_key__md_hmac(uint8_t *mac, const uint8_t *in, size_t in_len, const uint8_t *key, size_t key_len) {
	uint8_t opad[64 + RLC_MD_LEN];
	uint8_t *ipad = RLC_ALLOCA(uint8_t, 64 + in_len);
	uint8_t _key[64];
	if (ipad == NULL) {
		RLC_THROW(ERR_NO_MEMORY);
		return;
	}
	if (key_len > 64) {
		key_len = 64;
	}
	memcpy(_key, key, key_len);
	memset(_key + key_len, 0, 64 - key_len);
	key = _key;
	for (int i = 0; i < 64; i++) {
		opad[i] = 0x5C ^ key[i];
		ipad[i] = 0x36 ^ key[i];
	}
	memcpy(ipad + 64, in, in_len);
	md_map(opad + 64, ipad, 64 + in_len);
	md_map(mac, opad, 64 + RLC_MD_LEN);
	RLC_FREE(ipad);
}

/* ------------------------------------------------------------------ SHIFT-DEAD */
void ok_shift_prefix(uint8_t *p, int buf_len) {
	p[0] = buf_len >> 8;
	p[1] = (uint8_t)(buf_len & 0xff);
	p[2] = (uint8_t)(buf_len >> 8);
}

/* the cast binds tighter than the shift: the high octet of the length prefix is always 0 */
void bad_shift_dead__prefix(uint8_t *p, int buf_len) {
	p[0] = (uint8_t)buf_len >> 8;
	p[1] = (uint8_t)buf_len;
}

/* ------------------------------------------------------------------ KDF-COUNTER */
static void st14_kdf(uint8_t *key, size_t key_len, const uint8_t *in, size_t in_len, dig_t value) {
	uint32_t i, j, d = (uint32_t)(key_len / RLC_MD_LEN);
	uint8_t *buffer = RLC_ALLOCA(uint8_t, in_len + sizeof(uint32_t));
	if (buffer == NULL) {
		RLC_THROW(ERR_NO_MEMORY);
		return;
	}
	memcpy(buffer, in, in_len);
	for (i = value; i < d + value; i++) {
		j = util_conv_big(i);
		memcpy(buffer + in_len, &j, sizeof(uint32_t));
		md_map(key + (i - value) * RLC_MD_LEN, buffer, in_len + sizeof(uint32_t));
	}
	RLC_FREE(buffer);
}

void ok_st__md_mgf(uint8_t *key, size_t key_len, const uint8_t *in, size_t in_len) {
	st14_kdf(key, key_len, in, in_len, 0);
}

void ok_st__md_kdf(uint8_t *key, size_t key_len, const uint8_t *in, size_t in_len) {
	st14_kdf(key, key_len, in, in_len, 1);
}

/* one helper call shared "to be consistent": RSA-OAEP/PSS still round-trip, no other implementation agrees */
void bad_kdf_counter__md_mgf(uint8_t *key, size_t key_len, const uint8_t *in, size_t in_len) {
	st14_kdf(key, key_len, in, in_len, 1);
}

/* ------------------------------------------------------------------ ERR-SIGN */
int ok_err_sign__dec(uint8_t *out, size_t *out_len, uint8_t *in, size_t in_len) {
	int pad_len = ok_pad_decrypt(NULL, in, (int)in_len, out);
	*out_len = 0;
	if (pad_len <= 0) {
		return RLC_ERR;
	}
	*out_len = pad_len;
	return RLC_OK;
}

int bad_err_sign__dec(uint8_t *out, size_t *out_len, uint8_t *in, size_t in_len) {
	size_t pad_len = ok_pad_decrypt(NULL, in, (int)in_len, out);
	*out_len = 0;
	if (pad_len <= 0) {
		return RLC_ERR;
	}
	*out_len = pad_len;
	return RLC_OK;
}

/* ------------------------------------------------------------------ FINAL-PAD */
typedef struct { uint32_t h[8]; uint8_t buf[64]; size_t buflen; } st14_b2s;
void st14_blake2s_compress(st14_b2s *S, const uint8_t *in);

int ok_pad__blake2s_final(st14_b2s *S, void *out, size_t outlen) {
	if (out == NULL) {
		return -1;
	}
	memset(S->buf + S->buflen, 0, 64 - S->buflen);
	st14_blake2s_compress(S, S->buf);
	memcpy(out, S->h, outlen);
	return 0;
}

/* "init0 already zeroed the buffer": true for the first block only */
int bad_final_pad__blake2s_final(st14_b2s *S, void *out, size_t outlen) {
	if (out == NULL) {
		return -1;
	}
	st14_blake2s_compress(S, S->buf);
	memcpy(out, S->h, outlen);
	return 0;
}

/* ------------------------------------------------------------------ LEN-UNIT */
/* the whole call accounted at once: the part of length * 8 above 2^32 is dropped */
int bad_len_unit__input(st14_ctx *context, const uint8_t *m, size_t length) {
	uint32_t addTemp;
	if (ST14_ADD(context, (uint32_t)(length << 3)))
		return context->Corrupted;
	while (length--) {
		context->Message_Block[context->Message_Block_Index++] = *m;
		if (context->Message_Block_Index == 64)
			st14_process(context);
		m++;
	}
	return 0;
}

/* final bits: the amount is a variable, but bounded by the test in front */
int ok_len_unit__final_bits(st14_ctx *context, uint8_t bits, unsigned int length) {
	uint32_t addTemp;
	if (length >= 8) {
		return 1;
	}
	ST14_ADD(context, length);
	context->Message_Block[context->Message_Block_Index++] = bits;
	return 0;
}
