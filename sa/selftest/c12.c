/* Self-test miniatures for the C12 rules (parsed only). */
#include "relic.h"

int ok_a__g1_is_valid(const g1_t a) {
	bn_t n;
	g1_t u;
	int r = 0;

	if (g1_is_infty(a)) {
		return 0;
	}
	bn_null(n);
	g1_null(u);
	RLC_TRY {
		bn_new(n);
		g1_new(u);
		ep_curve_get_cof(n);
		if (bn_cmp_dig(n, 1) == RLC_EQ) {
			r = g1_on_curve(a);
		} else {
			switch (ep_curve_is_pairf()) {
				case EP_B12:
					fp_prime_get_par(n);
					g1_mul_any(u, a, n);
					r = g1_on_curve(a) && (g1_cmp(u, a) == RLC_EQ);
					break;
				default:
					pc_get_ord(n);
					bn_sub_dig(n, n, 1);
					g1_mul_any(u, a, n);
					g1_neg(u, u);
					r = g1_on_curve(a) && (g1_cmp(u, a) == RLC_EQ);
					break;
			}
		}
	} RLC_CATCH_ANY {
		RLC_THROW(ERR_CAUGHT);
	} RLC_FINALLY {
		bn_free(n);
		g1_free(u);
	}
	return r;
}

/* identity accepted */
int bad_valid_id__none__g1_is_valid(const g1_t a) {
	bn_t n;
	g1_t u;
	int r = 0;

	bn_null(n);
	g1_null(u);
	RLC_TRY {
		bn_new(n);
		g1_new(u);
		pc_get_ord(n);
		bn_sub_dig(n, n, 1);
		g1_mul_any(u, a, n);
		g1_neg(u, u);
		r = g1_on_curve(a) && (g1_cmp(u, a) == RLC_EQ);
	} RLC_CATCH_ANY {
		RLC_THROW(ERR_CAUGHT);
	} RLC_FINALLY {
		bn_free(n);
		g1_free(u);
	}
	return r;
}

/* one arm forgets the curve equation */
int bad_valid_curve__arm__g1_is_valid(const g1_t a) {
	bn_t n;
	g1_t u;
	int r = 0;

	if (g1_is_infty(a)) {
		return 0;
	}
	bn_null(n);
	g1_null(u);
	RLC_TRY {
		bn_new(n);
		g1_new(u);
		switch (ep_curve_is_pairf()) {
			case EP_BN:
				fp_prime_get_par(n);
				g1_mul_any(u, a, n);
				r = (g1_cmp(u, a) == RLC_EQ);
				break;
			default:
				pc_get_ord(n);
				bn_sub_dig(n, n, 1);
				g1_mul_any(u, a, n);
				g1_neg(u, u);
				r = g1_on_curve(a) && (g1_cmp(u, a) == RLC_EQ);
				break;
		}
	} RLC_CATCH_ANY {
		RLC_THROW(ERR_CAUGHT);
	} RLC_FINALLY {
		bn_free(n);
		g1_free(u);
	}
	return r;
}

/* the cofactor shortcut taken without testing the cofactor */
int bad_valid_rel__shortcut__g1_is_valid(const g1_t a) {
	int r = 0;

	if (g1_is_infty(a)) {
		return 0;
	}
	if (ep_curve_is_pairf() == EP_B12) {
		r = g1_on_curve(a);
	} else {
		g1_t u;
		bn_t n;
		bn_null(n);
		g1_null(u);
		bn_new(n);
		g1_new(u);
		pc_get_ord(n);
		bn_sub_dig(n, n, 1);
		g1_mul_any(u, a, n);
		g1_neg(u, u);
		r = g1_on_curve(a) && (g1_cmp(u, a) == RLC_EQ);
		bn_free(n);
		g1_free(u);
	}
	return r;
}

/* the relation is computed with the endomorphism-based multiplication */
int bad_valid_mul__glv__g1_is_valid(const g1_t a) {
	bn_t n;
	g1_t u;
	int r = 0;

	if (g1_is_infty(a)) {
		return 0;
	}
	bn_null(n);
	g1_null(u);
	bn_new(n);
	g1_new(u);
	pc_get_ord(n);
	bn_sub_dig(n, n, 1);
	g1_mul(u, a, n);
	g1_neg(u, u);
	r = g1_on_curve(a) && (g1_cmp(u, a) == RLC_EQ);
	bn_free(n);
	g1_free(u);
	return r;
}

int ok_b__gt_is_valid(const gt_t a) {
	bn_t n;
	gt_t u, v;
	int r = 0;

	if (gt_is_unity(a)) {
		return 0;
	}
	bn_null(n);
	gt_null(u);
	gt_null(v);
	RLC_TRY {
		bn_new(n);
		gt_new(u);
		gt_new(v);
		fp_prime_get_par(n);
		switch (ep_curve_is_pairf()) {
			case EP_B12:
				gt_frb(u, a, 1);
				gt_exp(v, a, n);
				r = (gt_cmp(u, v) == RLC_EQ);
				r &= fp12_test_cyc((void *)a);
				break;
			default:
				pc_get_ord(n);
				bn_sub_dig(n, n, 1);
				gt_exp(u, a, n);
				gt_inv(u, u);
				r = (gt_cmp(u, a) == RLC_EQ);
				break;
		}
	} RLC_CATCH_ANY {
		RLC_THROW(ERR_CAUGHT);
	} RLC_FINALLY {
		bn_free(n);
		gt_free(u);
		gt_free(v);
	}
	return r;
}

/* order check through the exponentiation that reduces modulo the order */
int bad_valid_mul__reduced__gt_is_valid(const gt_t a) {
	bn_t n;
	gt_t u;
	int r = 0;

	if (gt_is_unity(a)) {
		return 0;
	}
	bn_null(n);
	gt_null(u);
	bn_new(n);
	gt_new(u);
	pc_get_ord(n);
	gt_exp(u, a, n);
	r = gt_is_unity(u);
	r &= fp12_test_cyc((void *)a);
	bn_free(n);
	gt_free(u);
	return r;
}

/* the cyclotomic test overwritten instead of combined */
int bad_valid_curve__cyc__gt_is_valid(const gt_t a) {
	bn_t n;
	gt_t u, v;
	int r = 0;

	if (gt_is_unity(a)) {
		return 0;
	}
	bn_null(n);
	gt_null(u);
	bn_new(n);
	gt_new(u);
	r = fp12_test_cyc((void *)a);
	fp_prime_get_par(n);
	gt_exp(u, a, n);
	gt_frb(v, a, 1);
	r = (gt_cmp(u, v) == RLC_EQ);
	bn_free(n);
	gt_free(u);
	return r;
}

/* the GT-strong shortcut keyed on a curve it does not hold for */
int bad_valid_shortcut__id__gt_is_valid(const gt_t a) {
	bn_t n;
	gt_t u;
	int r = 0;

	if (gt_is_unity(a)) {
		return 0;
	}
	bn_null(n);
	gt_null(u);
	bn_new(n);
	gt_new(u);
	if (core_get()->ep_id == B12_P381) {
		r = 1;
	} else {
		pc_get_ord(n);
		bn_sub_dig(n, n, 1);
		gt_exp(u, a, n);
		gt_inv(u, u);
		r = (gt_cmp(u, a) == RLC_EQ);
	}
	r &= fp12_test_cyc((void *)a);
	bn_free(n);
	gt_free(u);
	return r;
}

int ok_c__gt_is_valid(const gt_t a) {
	bn_t n;
	gt_t u;
	int r = 0;

	if (gt_is_unity(a)) {
		return 0;
	}
	bn_null(n);
	gt_null(u);
	bn_new(n);
	gt_new(u);
	if (core_get()->ep_id == B12_P383) {
		r = 1;
	} else {
		pc_get_ord(n);
		bn_sub_dig(n, n, 1);
		gt_exp(u, a, n);
		gt_inv(u, u);
		r = (gt_cmp(u, a) == RLC_EQ);
	}
	r &= fp12_test_cyc((void *)a);
	bn_free(n);
	gt_free(u);
	return r;
}

void ok_d__gt_exp_x(gt_t c, const gt_t a, const bn_t b) {
	bn_t n, u, _b[4];
	if (bn_bits(b) <= RLC_DIG) {
		gt_exp_dig(c, a, b->dp[0]);
		if (bn_sign(b) == RLC_NEG) {
			gt_inv(c, c);
		}
		return;
	}
	bn_new(n);
	bn_new(u);
	for (int i = 0; i < 4; i++) {
		bn_new(_b[i]);
	}
	fp_prime_get_par(u);
	gt_get_ord(n);
	bn_abs(_b[0], b);
	bn_mod(_b[0], _b[0], n);
	if (bn_sign(b) == RLC_NEG) {
		bn_neg(_b[0], _b[0]);
	}
	bn_rec_frb(_b, 4, _b[0], u, n, 0);
	gt_copy(c, a);
}

/* one conditional subtraction instead of the reduction */
void bad_exp_red__sub__gt_exp_x(gt_t c, const gt_t a, const bn_t b) {
	bn_t n, u, _b[4];
	bn_new(n);
	bn_new(u);
	for (int i = 0; i < 4; i++) {
		bn_new(_b[i]);
	}
	fp_prime_get_par(u);
	gt_get_ord(n);
	bn_abs(_b[0], b);
	if (bn_cmp(_b[0], n) != RLC_LT) {
		bn_sub(_b[0], _b[0], n);
	}
	bn_rec_frb(_b, 4, _b[0], u, n, 0);
	gt_copy(c, a);
}

/* the digit fast path forgets the sign */
void bad_exp_sign__dig__g1_mul_x(g1_t c, const bn_t b) {
	if (bn_bits(b) <= RLC_DIG) {
		g1_get_gen(c);
		g1_mul_dig(c, c, b->dp[0]);
		return;
	}
	g1_mul_gen(c, b);
}

/* the relation is stored first and the curve equation conjoined in a second statement */
int ok_e__g1_is_valid(const g1_t a) {
	bn_t n;
	g1_t u;
	int r = 0;

	if (g1_is_infty(a)) {
		return 0;
	}
	bn_null(n);
	g1_null(u);
	bn_new(n);
	g1_new(u);
	pc_get_ord(n);
	bn_sub_dig(n, n, 1);
	g1_mul_any(u, a, n);
	g1_neg(u, u);
	r = (g1_cmp(u, a) == RLC_EQ);
	r = r && g1_on_curve(a);
	bn_free(n);
	g1_free(u);
	return r;
}
