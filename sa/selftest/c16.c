/* Self-test miniatures for the C16 rules (parsed only). */
#include "relic.h"
#include "relic_fb_low.h"

void ok_a__fb_inv_lower(fb_t c, const fb_t a) {
	if (fb_is_zero(a)) {
		RLC_THROW(ERR_NO_VALID);
		return;
	}
	fb_invn_low(c, a);
}

/* zero inverted to zero */
void bad_inv0__silent__fb_inv_basic(fb_t c, const fb_t a) {
	if (fb_is_zero(a)) {
		fb_zero(c);
		return;
	}
	fb_invn_low(c, a);
}

void ok_b__fb_exp_basic(fb_t c, const fb_t a, const bn_t b) {
	fb_t r;

	if (bn_is_zero(b)) {
		fb_set_dig(c, 1);
		return;
	}
	fb_null(r);
	fb_new(r);
	fb_copy(r, a);
	for (int i = bn_bits(b) - 2; i >= 0; i--) {
		fb_sqr(r, r);
		if (bn_get_bit(b, i)) {
			fb_mul(r, r, a);
		}
	}
	if (bn_sign(b) == RLC_NEG) {
		fb_inv(c, r);
	} else {
		fb_copy(c, r);
	}
	fb_free(r);
}

void bad_exp_sib__nosign__fb_exp_slide(fb_t c, const fb_t a, const bn_t b) {
	fb_t r;

	fb_null(r);
	fb_new(r);
	fb_copy(r, a);
	for (int i = bn_bits(b) - 2; i >= 0; i--) {
		fb_sqr(r, r);
		if (bn_get_bit(b, i)) {
			fb_mul(r, r, a);
		}
	}
	fb_copy(c, r);
	fb_free(r);
}

/* accumulates in the output and keeps reading the base */
void bad_alias_rw__acc(fb_t c, const fb_t a, const bn_t b) {
	fb_copy(c, a);
	for (int i = bn_bits(b) - 2; i >= 0; i--) {
		fb_sqr(c, c);
		if (bn_get_bit(b, i)) {
			fb_mul(c, c, a);
		}
	}
}

/* negative scalars multiply by |k| */
void bad_sm_sign__abs__eb_mul_y(eb_t r, const eb_t p, const bn_t k) {
	eb_t t;
	if (bn_is_zero(k) || eb_is_infty(p)) {
		eb_set_infty(r);
		return;
	}
	eb_null(t);
	eb_new(t);
	eb_copy(t, p);
	for (int i = bn_bits(k) - 2; i >= 0; i--) {
		eb_dbl(t, t);
		if (bn_get_bit(k, i)) {
			eb_add(t, t, p);
		}
	}
	eb_norm(r, t);
	eb_free(t);
}

/* the output's own coordinate is used where the input's was meant */
void bad_out_rbw__own(eb_t r, const eb_t p) {
	fb_add(r->y, r->x, r->y);
	fb_copy(r->x, p->x);
	fb_copy(r->z, p->z);
	r->coord = p->coord;
}

/* the result is stored over the second operand before that operand's x is read */
void bad_alias_rw__second(eb_t r, const eb_t p, const eb_t q) {
	fb_add(r->x, p->x, p->z);
	fb_add(r->y, q->x, q->z);
	fb_mul(r->z, r->x, r->y);
	r->coord = p->coord;
}

void ok_alias_order(eb_t r, const eb_t p, const eb_t q) {
	fb_add(r->y, q->x, q->z);
	fb_add(r->x, p->x, p->z);
	fb_mul(r->z, r->x, r->y);
	r->coord = PROJC;
}

/* OUT-FULL over the quadratic extension of the binary field */
void ok_full__fb2_inv(fb2_t c, const fb2_t a) {
	fb_inv(c[0], a[0]);
	fb_zero(c[1]);
}

void bad_out_full__fb2_fast(fb2_t c, const fb2_t a) {
	if (fb_is_zero(a[1])) {
		fb_inv(c[0], a[0]);
		return;
	}
	fb_mul(c[0], a[0], a[1]);
	fb_sqr(c[1], a[1]);
}
