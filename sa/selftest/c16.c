/* Self-test miniatures for the C16 rules (parsed only). */
#include "relic.h"
#include "relic_fb_low.h"

void ok_a__fb_inv_lower(fb_t c, const fb_t a) {
	if (fb_is_zero(a)) {
		RLC_THROW(ERR_NO_VALID);
		return;
	}
	fb_invn_low(c, a);
}

/* zero inverted to zero */
void bad_inv0__silent__fb_inv_basic(fb_t c, const fb_t a) {
	if (fb_is_zero(a)) {
		fb_zero(c);
		return;
	}
	fb_invn_low(c, a);
}

void ok_b__fb_exp_basic(fb_t c, const fb_t a, const bn_t b) {
	fb_t r;

	if (bn_is_zero(b)) {
		fb_set_dig(c, 1);
		return;
	}
	fb_null(r);
	fb_new(r);
	fb_copy(r, a);
	for (int i = bn_bits(b) - 2; i >= 0; i--) {
		fb_sqr(r, r);
		if (bn_get_bit(b, i)) {
			fb_mul(r, r, a);
		}
	}
	if (bn_sign(b) == RLC_NEG) {
		fb_inv(c, r);
	} else {
		fb_copy(c, r);
	}
	fb_free(r);
}

void bad_exp_sib__nosign__fb_exp_slide(fb_t c, const fb_t a, const bn_t b) {
	fb_t r;

	fb_null(r);
	fb_new(r);
	fb_copy(r, a);
	for (int i = bn_bits(b) - 2; i >= 0; i--) {
		fb_sqr(r, r);
		if (bn_get_bit(b, i)) {
			fb_mul(r, r, a);
		}
	}
	fb_copy(c, r);
	fb_free(r);
}

/* accumulates in the output and keeps reading the base */
void bad_alias_rw__acc(fb_t c, const fb_t a, const bn_t b) {
	fb_copy(c, a);
	for (int i = bn_bits(b) - 2; i >= 0; i--) {
		fb_sqr(c, c);
		if (bn_get_bit(b, i)) {
			fb_mul(c, c, a);
		}
	}
}
