/* Self-test miniatures for the C04 rules (parsed only). */
#include "relic.h"

static void pp_mil_k99(fp12_t r, ep2_t *t, ep2_t *q, ep_t *p, int m, bn_t a) {
	(void)t; (void)q; (void)p; (void)m; (void)a;
	fp12_set_dig(r, 2);
}

void ok_a__pp_map_oatep_k99(fp12_t r, const ep_t p, const ep2_t q) {
	ep_t _p[1];
	ep2_t t[1], _q[1];
	bn_t a;

	bn_null(a);
	bn_new(a);
	fp_prime_get_par(a);
	fp12_set_dig(r, 1);
	ep_norm(_p[0], p);
	ep2_norm(_q[0], q);
	if (!ep_is_infty(_p[0]) && !ep2_is_infty(_q[0])) {
		pp_mil_k99(r, t, _q, _p, 1, a);
		pp_exp_k12(r, r);
	}
	bn_free(a);
}

/* only one slot is tested */
void bad_mil_guard__one__pp_map_tatep_k99(fp12_t r, const ep_t p, const ep2_t q) {
	ep_t _p[1];
	ep2_t t[1], _q[1];
	bn_t a;

	bn_null(a);
	bn_new(a);
	fp12_set_dig(r, 1);
	ep_norm(_p[0], p);
	ep2_norm(_q[0], q);
	if (!ep_is_infty(p)) {
		pp_mil_k99(r, t, _q, _p, 1, a);
		pp_exp_k12(r, r);
	}
	bn_free(a);
}

/* the result is not initialised on the identity path */
void bad_id_one__noinit__pp_map_weilp_k99(fp12_t r, const ep_t p, const ep2_t q) {
	ep_t _p[1];
	ep2_t t[1], _q[1];
	bn_t a;

	bn_null(a);
	bn_new(a);
	ep_norm(_p[0], p);
	ep2_norm(_q[0], q);
	if (!ep_is_infty(p) && !ep2_is_infty(q)) {
		fp12_set_dig(r, 1);
		pp_mil_k99(r, t, _q, _p, 1, a);
		pp_exp_k12(r, r);
	}
	bn_free(a);
}

void ok_b__pp_map_sim_oatep_k99(fp12_t r, const ep_t *p, const ep2_t *q, int m) {
	ep_t *_p = RLC_ALLOCA(ep_t, m);
	ep2_t *t = RLC_ALLOCA(ep2_t, m), *_q = RLC_ALLOCA(ep2_t, m);
	bn_t a;
	int i, j;

	bn_null(a);
	bn_new(a);
	j = 0;
	for (i = 0; i < m; i++) {
		if (!ep_is_infty(p[i]) && !ep2_is_infty(q[i])) {
			ep_norm(_p[j], p[i]);
			ep2_norm(_q[j++], q[i]);
		}
	}
	fp12_set_dig(r, 1);
	if (j > 0) {
		pp_mil_k99(r, t, _q, _p, j, a);
		pp_exp_k12(r, r);
	}
	bn_free(a);
}

/* the loop is run over all m pairs */
void bad_mil_compact__m__pp_map_sim_tatep_k99(fp12_t r, const ep_t *p, const ep2_t *q, int m) {
	ep_t *_p = RLC_ALLOCA(ep_t, m);
	ep2_t *t = RLC_ALLOCA(ep2_t, m), *_q = RLC_ALLOCA(ep2_t, m);
	bn_t a;
	int i, j;

	bn_null(a);
	bn_new(a);
	j = 0;
	for (i = 0; i < m; i++) {
		if (!ep_is_infty(p[i]) && !ep2_is_infty(q[i])) {
			ep_norm(_p[j], p[i]);
			ep2_norm(_q[j++], q[i]);
		}
	}
	fp12_set_dig(r, 1);
	if (j > 0) {
		pp_mil_k99(r, t, _q, _p, m, a);
		pp_exp_k12(r, r);
	}
	bn_free(a);
}

/* pairs with an identity G2 component are kept */
void bad_mil_compact__half__pp_map_sim_weilp_k99(fp12_t r, const ep_t *p, const ep2_t *q, int m) {
	ep_t *_p = RLC_ALLOCA(ep_t, m);
	ep2_t *t = RLC_ALLOCA(ep2_t, m), *_q = RLC_ALLOCA(ep2_t, m);
	bn_t a;
	int i, j;

	bn_null(a);
	bn_new(a);
	j = 0;
	for (i = 0; i < m; i++) {
		if (!ep_is_infty(p[i])) {
			ep_norm(_p[j], p[i]);
			ep2_norm(_q[j++], q[i]);
		}
	}
	fp12_set_dig(r, 1);
	if (j > 0) {
		pp_mil_k99(r, t, _q, _p, j, a);
		pp_exp_k12(r, r);
	}
	bn_free(a);
}

/* the G1 operand is copied, not normalised */
void bad_mil_norm__copy__pp_map_sim_oatep_k98(fp12_t r, const ep_t *p, const ep2_t *q, int m) {
	ep_t *_p = RLC_ALLOCA(ep_t, m);
	ep2_t *t = RLC_ALLOCA(ep2_t, m), *_q = RLC_ALLOCA(ep2_t, m);
	bn_t a;
	int i, j;

	bn_null(a);
	bn_new(a);
	j = 0;
	for (i = 0; i < m; i++) {
		if (!ep_is_infty(p[i]) && !ep2_is_infty(q[i])) {
			ep_copy(_p[j], p[i]);
			ep2_norm(_q[j++], q[i]);
		}
	}
	fp12_set_dig(r, 1);
	if (j > 0) {
		pp_mil_k99(r, t, _q, _p, j, a);
		pp_exp_k12(r, r);
	}
	bn_free(a);
}
