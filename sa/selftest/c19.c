/* Self-test miniatures for the C19 rules.  Compiled (parsed only) against
 * /repo/include with the BASE configuration header. */
#include "relic.h"

int ok_balanced(bn_t a) {
	int r = RLC_OK;
	bn_t t;
	bn_null(t);
	RLC_TRY {
		bn_new(t);
		bn_add(t, a, a);
		if (bn_is_zero(t)) {
			RLC_THROW(ERR_NO_VALID);
			return RLC_ERR;		/* dead: the throw does not fall through here */
		}
	} RLC_CATCH_ANY {
		r = RLC_ERR;
	} RLC_FINALLY {
		bn_free(t);
	}
	return r;
}

int ok_nested(bn_t a) {
	int r = RLC_OK;
	RLC_TRY {
		RLC_TRY {
			bn_add(a, a, a);
		} RLC_CATCH_ANY {
			RLC_THROW(ERR_CAUGHT);
		}
		for (int i = 0; i < 3; i++) {
			if (i == 1) break;		/* break of a user loop inside the body */
			bn_dbl(a, a);
		}
	} RLC_CATCH_ANY {
		r = RLC_ERR;
	}
	return r;
}

int bad_try_balance__return_in_try(bn_t a) {
	RLC_TRY {
		bn_add(a, a, a);
		if (bn_is_zero(a)) {
			return 0;			/* escapes without restoring ctx->last */
		}
	} RLC_CATCH_ANY {
		RLC_THROW(ERR_CAUGHT);
	}
	return 1;
}

int bad_try_balance__goto_out(bn_t a) {
	RLC_TRY {
		bn_add(a, a, a);
		if (bn_is_zero(a)) {
			goto end;
		}
	} RLC_CATCH_ANY {
		RLC_THROW(ERR_CAUGHT);
	}
end:
	return 1;
}

int bad_try_balance__break_out(bn_t a) {
	for (int i = 0; i < 2; i++) {
		RLC_TRY {
			bn_add(a, a, a);
			if (bn_is_zero(a)) {
				break;			/* breaks the protocol loop: pop skipped */
			}
		} RLC_CATCH_ANY {
			RLC_THROW(ERR_CAUGHT);
		}
	}
	return 1;
}

static void helper_with_try(bn_t a) {
	RLC_TRY {
		bn_add(a, a, a);
	} RLC_CATCH_ANY {
	}
}

int bad_finally_pure__try_in_callee(bn_t a) {
	int r = RLC_OK;
	RLC_TRY {
		bn_add(a, a, a);
	} RLC_CATCH_ANY {
		r = RLC_ERR;
	} RLC_FINALLY {
		helper_with_try(a);		/* completes a TRY: clears ctx->caught */
	}
	return r;
}

int bad_finally_once__return_in_finally(bn_t a) {
	int r = RLC_OK;
	RLC_TRY {
		bn_add(a, a, a);
	} RLC_CATCH_ANY {
		r = RLC_ERR;
	} RLC_FINALLY {
		if (bn_is_zero(a)) return 5;
	}
	return r;
}

void bad_ctx_writers__code_reset(void) {
	core_get()->code = RLC_OK;		/* forges the sticky code */
}

void bad_ctx_writers__chain(void) {
	ctx_t *c = core_get();
	c->last = NULL;
}

static int bad_no_shared_state__counter;
int helper_static_counter(void) {
	bad_no_shared_state__counter++;
	return bad_no_shared_state__counter;
}

int bad_no_shared_state__function_static(void) {
	static int calls;
	calls += 1;
	return calls;
}

static const int table_ok[3] = { 1, 2, 3 };
static int ok_table_readonly[3] = { 1, 2, 3 };
int ok_tables(int i) {
	return table_ok[i % 3] + ok_table_readonly[i % 3];
}

/* ---- INSTALL-MUST ---- */
void ok_install__fp_param_set(int param) {
	bn_t p;
	bn_null(p);
	RLC_TRY {
		bn_new(p);
		core_get()->fp_id = param;
		switch (param) {
			case 1:
				bn_set_dig(p, 7);
				fp_prime_set_dense(p);
				break;
			default:
				RLC_THROW(ERR_NO_VALID);
				break;
		}
	} RLC_CATCH_ANY {
		RLC_THROW(ERR_CAUGHT);
	} RLC_FINALLY {
		bn_free(p);
	}
}

/* the installation is skipped when the identifier matches, but the dense installer never writes it */
void bad_install_must__stale__fp_param_set(int param) {
	bn_t p;
	bn_null(p);
	if (param != 0 && param == fp_param_get()) {
		return;
	}
	RLC_TRY {
		bn_new(p);
		core_get()->fp_id = param;
		bn_set_dig(p, 7);
		fp_prime_set_dense(p);
	} RLC_CATCH_ANY {
		RLC_THROW(ERR_CAUGHT);
	} RLC_FINALLY {
		bn_free(p);
	}
}

/* HIST-FREE: the 2-adicity is reset before it is accumulated; the map parameter is searched from a fixed start */
void ok_hist__counts_from_zero(const bn_t p) {
	ctx_t *ctx = core_get();
	bn_t t;
	bn_null(t);
	RLC_TRY {
		bn_new(t);
		ctx->ad2 = 0;
		bn_sub_dig(t, p, 1);
		while (bn_is_even(t)) {
			ctx->ad2++;
			bn_hlv(t, t);
		}
		fp_set_dig(ctx->ep_map_u, 0);
		do {
			fp_add_dig(ctx->ep_map_u, ctx->ep_map_u, 1);
		} while (fp_is_sqr(ctx->ep_map_u));
		fp_copy(ctx->ep2_frb[0][0], ctx->fp2_p1[1][0]);
		fp_copy(ctx->ep2_frb[0][1], ctx->fp2_p1[1][1]);
		fp2_inv(ctx->ep2_frb[0], ctx->ep2_frb[0]);
	} RLC_CATCH_ANY {
		RLC_THROW(ERR_CAUGHT);
	} RLC_FINALLY {
		bn_free(t);
	}
}

/* the counter keeps what the previous selection left: the second selection computes something else */
void bad_hist_free__accumulates(const bn_t p) {
	ctx_t *ctx = core_get();
	bn_t t;
	bn_null(t);
	RLC_TRY {
		bn_new(t);
		bn_sub_dig(t, p, 1);
		while (bn_is_even(t)) {
			ctx->ad2++;
			bn_hlv(t, t);
		}
	} RLC_CATCH_ANY {
		RLC_THROW(ERR_CAUGHT);
	} RLC_FINALLY {
		bn_free(t);
	}
}

/* the search for the map parameter continues from the previous curve's value */
void bad_hist_free__search_continues(void) {
	ctx_t *ctx = core_get();
	do {
		fp_add_dig(ctx->ep_map_u, ctx->ep_map_u, 1);
	} while (fp_is_sqr(ctx->ep_map_u));
}

/* the reset happens on one branch only */
void bad_hist_free__one_branch(int fresh) {
	ctx_t *ctx = core_get();
	if (fresh) {
		ctx->par_len = 0;
	}
	ctx->par_len++;
}

/* SET-ORDER: the table of the generator is built before the kind flag of the new curve is stored */
static void st_build_table(void) {
	ctx_t *ctx = core_get();
	if (ctx->ep_is_endom) {
		fp_zero(ctx->beta);
	}
}

void ok_set_order__flags_first(void) {
	ctx_t *ctx = core_get();
	ctx->ep_is_endom = 0;
	ctx->ep_is_super = 0;
	st_build_table();
}

void bad_set_order__flags_late(void) {
	ctx_t *ctx = core_get();
	st_build_table();
	ctx->ep_is_endom = 0;
	ctx->ep_is_super = 0;
}

/* INIT-RESET: the identifier is written by the selection only */
void st_stale_select(int param) {
	core_get()->ed_id = param;
}

void bad_init_reset__stale__core_init(void) {
	ctx_t *ctx = core_get();
	ctx->code = RLC_OK;
	fp_zero(ctx->beta);
}

static void ok_reset__st_module_init(void) {
	core_get()->ed_id = 0;
}

void ok_reset__core_init(void) {
	ok_reset__st_module_init();
}

/* STALE-READ: the kind flag is derived from a field this call has not refreshed yet; a compute-once shortcut keyed on
 * what the previous selection left */
static void st_detect(int *opt, const fb_t a);

void ok_stale__flag_after_refresh(const fb_t b) {
	ctx_t *ctx = core_get();
	st_detect(&(ctx->eb_opt_b), b);
	ctx->eb_is_kbltz = (ctx->eb_opt_b == RLC_ONE);
}

void bad_stale_read__flag_before_refresh(const fb_t b) {
	ctx_t *ctx = core_get();
	ctx->eb_is_kbltz = (ctx->eb_opt_b == RLC_ONE);
	st_detect(&(ctx->eb_opt_b), b);
}

void bad_stale_read__compute_once(void) {
	ctx_t *ctx = core_get();
	if (ctx->chain_len > 0) {
		return;
	}
	ctx->chain_len = 11;
	ctx->chain[4] = (4 << 8) + 0;
}

/* FLAG-BOTH: the kind flag is raised under a condition and never lowered */
void ok_flag__both(const fb_t b) {
	ctx_t *ctx = core_get();
	if (fb_cmp_dig(b, 1) == RLC_EQ) {
		ctx->eb_is_kbltz = 1;
	} else {
		ctx->eb_is_kbltz = 0;
	}
}

void bad_flag_both__only_set(const fb_t b) {
	ctx_t *ctx = core_get();
	if (fb_cmp_dig(b, 1) == RLC_EQ) {
		ctx->eb_is_kbltz = 1;
	}
}
